"""ctypes replacement of the pybind11 module `matid.ext`, built from the *current*
/repo/matid/ext/{geometry,celllist}.cpp against the stand-in headers in /verif/cxx/shim
(pybind11 is not installed, so the shipped matid/ext*.so cannot be rebuilt).

Policy (DESIGN.md 2.1 step 3): when the SHA-256 of the C++ sources equals the digest recorded in
cxx/shipped_sources.sha256 (the sources the shipped .so was built from), Python-level runs use the
shipped module -- the genuine pybind11 path -- and the shim is only compared with it (fidelity).
When the digest differs, the shim build replaces `matid.ext` so that every run executes the
current C++ sources.  If the sources no longer compile against the shim, build() raises
ShimBuildError and the check reports that the correspondence cannot be established.

Usage in an implementation-side runner, BEFORE importing matid:
    from lib import extshim; mode = extshim.install()        # 'shipped' | 'shim'
    extshim.install(force=True)                               # always use the shim
"""
import ctypes
import hashlib
import importlib.abc
import importlib.machinery
import os
import subprocess
import sys
import types

import numpy as np

VERIF = os.path.dirname(os.path.dirname(os.path.dirname(os.path.abspath(__file__))))
REPO = os.environ.get("VERIF_REPO", "/repo")
SRC_FILES = ["celllist.cpp", "celllist.h", "geometry.cpp", "geometry.h", "ext.cpp"]


class ShimBuildError(Exception):
    pass


def sources_digest(repo=None):
    repo = repo or REPO
    h = hashlib.sha256()
    for fn in SRC_FILES:
        with open(os.path.join(repo, "matid", "ext", fn), "rb") as f:
            h.update(fn.encode() + b"\0" + f.read() + b"\0")
    return h.hexdigest()


def shipped_digest():
    with open(os.path.join(VERIF, "cxx", "shipped_sources.sha256")) as f:
        return f.read().split()[0]


def sources_match_shipped(repo=None):
    return sources_digest(repo) == shipped_digest()


def build(repo=None):
    """Compile the current C++ sources into build/cxx-<digest>/libmatidext.so (cached by digest of
    the sources + shim + wrapper).  Returns the path."""
    repo = repo or REPO
    h = hashlib.sha256(sources_digest(repo).encode())
    for fn in ("cxx/cabi.cpp", "cxx/shim/pybind11/numpy.h"):
        with open(os.path.join(VERIF, fn), "rb") as f:
            h.update(f.read())
    d = os.path.join(VERIF, "build", "cxx-" + h.hexdigest()[:16])
    so = os.path.join(d, "libmatidext.so")
    if os.path.exists(so):
        return so
    os.makedirs(d, exist_ok=True)
    ext = os.path.join(repo, "matid", "ext")
    tmp = so + ".%d.tmp" % os.getpid()
    cmd = ["g++", "-std=c++11", "-O2", "-fPIC", "-shared", "-I", os.path.join(VERIF, "cxx", "shim"), "-I", ext,
           os.path.join(VERIF, "cxx", "cabi.cpp"), os.path.join(ext, "geometry.cpp"), os.path.join(ext, "celllist.cpp"),
           "-o", tmp]
    r = subprocess.run(cmd, capture_output=True, text=True, timeout=600)
    if r.returncode != 0:
        raise ShimBuildError("current matid/ext sources do not compile against the pybind11 stand-in:\n" + r.stderr[-3000:])
    os.replace(tmp, so)
    return so


_D = ctypes.POINTER(ctypes.c_double)
_I = ctypes.POINTER(ctypes.c_int)
_B = ctypes.POINTER(ctypes.c_bool)


def _raise(lib):
    msg = lib.ms_last_error().decode()
    kind, _, what = msg.partition(":")
    exc = {"ValueError": ValueError, "MemoryError": MemoryError}.get(kind, RuntimeError)
    raise exc(what)


def _f64(a, shape=None):
    a = np.ascontiguousarray(np.asarray(a), dtype=np.float64)
    if shape is not None and a.shape != shape:
        raise ValueError("bad array shape %r, expected %r" % (a.shape, shape))
    return a


def _pbc(p):
    return np.ascontiguousarray(np.asarray(p), dtype=np.bool_)


class ExtendedSystem:
    pass


class CellListResult:
    pass


def make_module(so_path):
    lib = ctypes.CDLL(so_path)
    lib.ms_last_error.restype = ctypes.c_char_p
    m = types.ModuleType("matid.ext")
    m.__file__ = so_path
    m._lib = lib
    m._is_verif_shim = True

    def extend_system(positions, atomic_numbers, cell, pbc, cutoff):
        P = _f64(positions); n = P.shape[0]
        Z = np.ascontiguousarray(np.asarray(atomic_numbers), dtype=np.int32)
        C = _f64(cell, (3, 3)); B = _pbc(pbc)
        h = ctypes.c_void_p(); n_out = ctypes.c_long()
        rc = lib.ms_extend_system(P.ctypes.data_as(_D), Z.ctypes.data_as(_I), ctypes.c_long(n), C.ctypes.data_as(_D),
                                  B.ctypes.data_as(_B), ctypes.c_double(cutoff), ctypes.byref(h), ctypes.byref(n_out))
        if rc:
            _raise(lib)
        N = n_out.value
        s = ExtendedSystem()
        s.positions = np.empty((N, 3)); s.atomic_numbers = np.empty((N,), dtype=np.int32)
        s.indices = np.empty((N,), dtype=np.int32); s.factors = np.empty((N, 3))
        lib.ms_extended_copy(h, s.positions.ctypes.data_as(_D), s.atomic_numbers.ctypes.data_as(_I),
                             s.indices.ctypes.data_as(_I), s.factors.ctypes.data_as(_D))
        lib.ms_extended_free(h)
        return s

    class CellList:
        def __init__(self, positions=None, indices=None, factors=None, cutoff=None, _handle=None):
            if _handle is not None:
                self._h = _handle
                return
            P = _f64(positions); n = P.shape[0]
            I = np.ascontiguousarray(np.asarray(indices), dtype=np.int32)
            F = _f64(factors, (n, 3))
            h = ctypes.c_void_p()
            rc = lib.ms_cell_list_new(P.ctypes.data_as(_D), I.ctypes.data_as(_I), F.ctypes.data_as(_D), ctypes.c_long(n),
                                      ctypes.c_double(cutoff), ctypes.byref(h))
            if rc:
                _raise(lib)
            self._h = h

        def __del__(self):
            try:
                lib.ms_cell_list_free(self._h)
            except Exception:
                pass

        def _result(self, h, n):
            r = CellListResult()
            idx = np.empty((n,), dtype=np.int32); orig = np.empty((n,), dtype=np.int32)
            d = np.empty((n,)); d2 = np.empty((n,)); disp = np.empty((n, 3)); fac = np.empty((n, 3))
            lib.ms_result_copy(h, idx.ctypes.data_as(_I), orig.ctypes.data_as(_I), d.ctypes.data_as(_D), d2.ctypes.data_as(_D),
                               disp.ctypes.data_as(_D), fac.ctypes.data_as(_D))
            lib.ms_result_free(h)
            # pybind11/stl.h converts std::vector to Python lists
            r.indices = idx.tolist(); r.indices_original = orig.tolist(); r.distances = d.tolist()
            r.distances_squared = d2.tolist(); r.displacements = disp.tolist(); r.factors = fac.tolist()
            return r

        def get_neighbours_for_position(self, x, y, z):
            h = ctypes.c_void_p(); n = ctypes.c_long()
            rc = lib.ms_query_position(self._h, ctypes.c_double(x), ctypes.c_double(y), ctypes.c_double(z), ctypes.byref(h), ctypes.byref(n))
            if rc:
                _raise(lib)
            return self._result(h, n.value)

        def get_neighbours_for_index(self, idx):
            h = ctypes.c_void_p(); n = ctypes.c_long()
            rc = lib.ms_query_index(self._h, ctypes.c_int(idx), ctypes.byref(h), ctypes.byref(n))
            if rc:
                _raise(lib)
            return self._result(h, n.value)

        def _geometry(self):
            """(xmin,xmax,ymin,ymax,zmin,zmax,dx,dy,dz), (nx,ny,nz,n_positions) -- shim only"""
            g = (ctypes.c_double * 9)(); n = (ctypes.c_long * 4)()
            lib.ms_cell_list_geometry(self._h, g, n)
            return list(g), list(n)

    def get_cell_list(positions, cell, pbc, extension, cutoff):
        P = _f64(positions); C = _f64(cell, (3, 3)); B = _pbc(pbc)
        h = ctypes.c_void_p()
        rc = lib.ms_get_cell_list(P.ctypes.data_as(_D), ctypes.c_long(P.shape[0]), C.ctypes.data_as(_D), B.ctypes.data_as(_B),
                                  ctypes.c_double(extension), ctypes.c_double(cutoff), ctypes.byref(h))
        if rc:
            _raise(lib)
        return CellList(_handle=h)

    def get_displacement_tensor(displacements, distances, factors, positions, cell, pbc, cutoff, return_factors, return_distances):
        P = _f64(positions); n = P.shape[0]
        C = _f64(cell, (3, 3)); B = _pbc(pbc)
        for a, shp in ((displacements, (n, n, 3)), (distances, (n, n)), (factors, (n, n, 3))):
            if not (isinstance(a, np.ndarray) and a.dtype == np.float64 and a.flags["C_CONTIGUOUS"] and a.shape == shp):
                raise TypeError("output arrays must be C-contiguous float64 of the right shape")
        rc = lib.ms_get_displacement_tensor(displacements.ctypes.data_as(_D), distances.ctypes.data_as(_D), factors.ctypes.data_as(_D),
                                            P.ctypes.data_as(_D), ctypes.c_long(n), C.ctypes.data_as(_D), B.ctypes.data_as(_B),
                                            ctypes.c_double(cutoff), ctypes.c_bool(return_factors), ctypes.c_bool(return_distances))
        if rc:
            _raise(lib)

    m.extend_system = extend_system
    m.get_cell_list = get_cell_list
    m.get_displacement_tensor = get_displacement_tensor
    m.CellList = CellList
    m.CellListResult = CellListResult
    m.ExtendedSystem = ExtendedSystem
    return m


class _Finder(importlib.abc.MetaPathFinder, importlib.abc.Loader):
    def __init__(self, so_path):
        self.so_path = so_path

    def find_spec(self, name, path, target=None):
        if name == "matid.ext":
            return importlib.machinery.ModuleSpec(name, self)
        return None

    def create_module(self, spec):
        return make_module(self.so_path)

    def exec_module(self, module):
        pass


def install(force=False, repo=None):
    """Call before `import matid`.  Returns 'shipped' or 'shim'."""
    if "matid" in sys.modules or "matid.ext" in sys.modules:
        raise RuntimeError("extshim.install() must run before matid is imported")
    if not force and os.environ.get("VERIF_FORCE_SHIM") != "1" and sources_match_shipped(repo):
        return "shipped"
    so = build(repo)
    sys.meta_path.insert(0, _Finder(so))
    return "shim"


def load_shim(repo=None):
    """The shim module object without installing it (for shim-vs-shipped fidelity comparison
    and for observing CellList bin geometry)."""
    return make_module(build(repo))
