"""Implementation side of C20: runs the frame helpers of matid.geometry on the given cases.

stdin : {"cases": [ {"id": int, "fn": str, ...arguments as nested lists of floats...} ]}
stdout: last line {"mode": <extshim mode>, "results": [ {"id":..., "error": "Type: msg"} | {"id":..., outputs...} ]}
Floats travel as JSON numbers (Python's repr round-trips binary64 exactly).
"""
import json
import os
import sys

sys.path.insert(0, os.path.dirname(os.path.abspath(__file__)))
sys.path.insert(0, os.path.dirname(os.path.dirname(os.path.abspath(__file__))))
from _util import time_limit  # noqa: E402
from lib import extshim  # noqa: E402

mode = extshim.install()
import numpy as np  # noqa: E402
from ase import Atoms  # noqa: E402
import matid.geometry as G  # noqa: E402


def arr(x):
    return np.array(x, dtype=float)


def lst(a):
    return np.asarray(a, dtype=float).tolist()


def pbc_arg(p):
    return p if isinstance(p, bool) else [bool(x) for x in p]


def atoms_of(c):
    return Atoms(numbers=c["numbers"], positions=arr(c["positions"]), cell=arr(c["cell"]), pbc=pbc_arg(c["pbc"]))


def same(a, b):
    a = np.asarray(a); b = np.asarray(b)
    return bool(a.shape == b.shape and np.array_equal(a, b))


def run_case(c):
    fn = c["fn"]
    if fn == "frame":
        cell = arr(c["cell"]); pos = arr(c["positions"]); sc = arr(c["scaled"])
        cell0, pos0, sc0 = cell.copy(), pos.copy(), sc.copy()
        s = G.to_scaled(cell, pos)
        x = G.to_cartesian(cell, sc)
        rt_cs = G.to_cartesian(cell, G.to_scaled(cell, pos))
        rt_sc = G.to_scaled(cell, G.to_cartesian(cell, sc))
        one = G.to_scaled(cell, pos[0])           # 1-D input is promoted to one row
        # history: the caller edits THE SAME cell / position arrays in place and calls again; the answers must be those
        # for the edited values (compared with calls on fresh copies of the edited arrays)
        ce = cell.copy(); pe = pos.copy(); se = sc.copy()
        G.to_scaled(ce, pe); G.to_cartesian(ce, se)
        ce[2] *= 1.25; ce[0] += 0.125 * ce[1]; pe += 0.5; se *= 0.5
        a1, a2 = G.to_scaled(ce, pe), G.to_cartesian(ce, se)
        b1, b2 = G.to_scaled(ce.copy(), pe.copy()), G.to_cartesian(ce.copy(), se.copy())
        inplace_ok = bool(np.allclose(a1, b1, rtol=0, atol=1e-9) and np.allclose(a2, b2, rtol=0, atol=1e-9))
        return {"to_scaled": lst(s), "to_cartesian": lst(x), "rt_cart": lst(rt_cs), "rt_scaled": lst(rt_sc),
                "one_shape": list(one.shape), "one": lst(one), "inplace_edit_ok": inplace_ok,
                "inputs_unchanged": same(cell, cell0) and same(pos, pos0) and same(sc, sc0)}
    if fn == "wrap":
        cell = arr(c["cell"]); pos = arr(c["positions"]); sc = arr(c["scaled"]); pbc = pbc_arg(c["pbc"])
        cell0, pos0 = cell.copy(), pos.copy()
        un = G.to_scaled(cell, pos)
        wr = G.to_scaled(cell, pos, wrap=True, pbc=pbc)
        nowrap = G.to_scaled(cell, pos, wrap=False, pbc=pbc)
        cw = G.to_cartesian(cell, sc.copy(), wrap=True, pbc=pbc)
        cart_of_wrapped = G.to_cartesian(cell, wr.copy())
        return {"unwrapped": lst(un), "wrapped": lst(wr), "nowrap_same": same(un, nowrap), "cart_wrap": lst(cw),
                "cart_of_wrapped": lst(cart_of_wrapped),
                "inputs_unchanged": same(cell, cell0) and same(pos, pos0)}
    if fn == "snap":
        sc = arr(c["scaled"])
        out = G.get_wrapped_positions(sc.copy(), c["precision"]) if "precision" in c else G.get_wrapped_positions(sc.copy())
        return {"out": lst(out)}
    if fn == "mincell":
        at = atoms_of(c)
        cell0 = at.get_cell().array.copy(); pos0 = at.get_positions().copy(); pbc0 = at.get_pbc().copy(); num0 = at.get_atomic_numbers().copy()
        if c["id"] % 2 == 0:
            # history: the same Atoms object was handed in before with another cell length along the axis
            at.get_cell()
            G.get_minimized_cell(at, c["axis"], c["min_size"])
            cc = at.get_cell().array.copy(); cc[c["axis"]] *= 1.5
            at.set_cell(cc, scale_atoms=False)
            G.get_minimized_cell(at, c["axis"], c["min_size"])
            at.set_cell(cell0, scale_atoms=False)
        new = G.get_minimized_cell(at, c["axis"], c["min_size"])
        unchanged = same(at.get_cell().array, cell0) and same(at.get_positions(), pos0) and same(at.get_pbc(), pbc0) \
            and same(at.get_atomic_numbers(), num0)
        th = G.get_thickness(at, c["axis"])
        return {"cell": lst(new.get_cell().array), "positions": lst(new.get_positions()),
                "scaled": lst(new.get_scaled_positions(wrap=False)),
                "numbers": [int(z) for z in new.get_atomic_numbers()], "pbc": [bool(b) for b in new.get_pbc()],
                "input_unchanged": unchanged, "new_object": new is not at, "thickness": float(th)}
    if fn == "swap":
        at = atoms_of(c)
        r = G.swap_basis(at, c["a"], c["b"])
        return {"cell": lst(at.get_cell().array), "positions": lst(at.get_positions()), "pbc": [bool(b) for b in at.get_pbc()],
                "numbers": [int(z) for z in at.get_atomic_numbers()], "returns_none": r is None}
    if fn == "complete":
        a = arr(c["a"]); b = arr(c["b"]); a0, b0 = a.copy(), b.copy()
        out = G.complete_cell(a, b, c["length"])
        return {"shape": list(np.shape(out)), "out": lst(np.asarray(out).reshape(-1)), "inputs_unchanged": same(a, a0) and same(b, b0)}
    if fn == "moments":
        at = atoms_of(c)
        pos0 = at.get_positions().copy()
        com = G.get_center_of_mass(at)
        res = {"com": lst(com), "masses": lst(at.get_masses())}
        if "weight" in c:
            evals, evecs = G.get_moments_of_inertia(at, c["weight"])
        else:
            evals, evecs = G.get_moments_of_inertia(at)
        res.update({"evals": lst(evals), "evecs": lst(evecs), "input_unchanged": same(at.get_positions(), pos0)})
        if c.get("translate") is not None:
            at2 = atoms_of(c)
            at2.set_positions(at2.get_positions() + arr(c["translate"]))
            e2, _ = G.get_moments_of_inertia(at2, c.get("weight", True))
            res["evals_translated"] = lst(e2)
            res["com_translated"] = lst(G.get_center_of_mass(at2))
        return res
    if fn == "com":
        at = atoms_of(c)
        com = G.get_center_of_mass(at)
        res = {"com": lst(com), "masses": lst(at.get_masses())}
        cell = arr(c["cell"])
        if c.get("shifts") is not None:           # integer lattice shifts per atom
            at2 = atoms_of(c)
            at2.set_positions(at2.get_positions() + np.dot(arr(c["shifts"]), cell))
            res["com_shifted"] = lst(G.get_center_of_mass(at2))
        if c.get("translate") is not None:
            at3 = atoms_of(c)
            at3.set_positions(at3.get_positions() + arr(c["translate"]))
            res["com_translated"] = lst(G.get_center_of_mass(at3))
        # mean resultant per axis (the hypothesis of the Reals theorem), from the wrapped coordinates
        s = at.get_scaled_positions()
        m = at.get_masses()
        th = 2 * np.pi * s
        res["resultant_rel"] = [float(np.hypot(np.sum(m * np.cos(th[:, i])), np.sum(m * np.sin(th[:, i]))) / np.sum(m)) for i in range(3)]
        return res
    raise ValueError("unknown fn " + str(fn))


def perturbed(c):
    """the same structure with OTHER scalar arguments (axis, min_size, pbc, length, weight, basis pair)"""
    d = json.loads(json.dumps(c))
    if "axis" in d:
        d["axis"] = (d["axis"] + 1) % 3
    if "min_size" in d:
        d["min_size"] = d["min_size"] * 2 + 0.37
    if "length" in d:
        d["length"] = d["length"] * 2 + 0.5
    if "weight" in d:
        d["weight"] = not d["weight"]
    if "a" in d and "b" in d and isinstance(d["a"], int):
        d["a"], d["b"] = (d["a"] + 1) % 3, (d["b"] + 1) % 3
    if isinstance(d.get("pbc"), list):
        d["pbc"] = [not x for x in d["pbc"]]
    if "precision" in d:
        d["precision"] = d["precision"] * 10
    return d


req = json.load(sys.stdin)
results = []
for c in req["cases"]:
    try:
        with time_limit(30):
            first = None
            if c["id"] % 3 == 0:
                # process history: the helper is called with other scalar arguments on the same structure, then twice with
                # the arguments of the case; the two answers must be identical (the measured one is the second)
                try:
                    run_case(perturbed(c))
                except Exception:
                    pass
                first = json.dumps(run_case(c), sort_keys=True, default=str)
            r = run_case(c)
            if first is not None:
                r["history_same"] = bool(first == json.dumps(r, sort_keys=True, default=str))
    except Exception as e:  # noqa: BLE001
        r = {"error": type(e).__name__ + ": " + str(e)[:300]}
    r["id"] = c["id"]
    results.append(r)
print(json.dumps({"mode": mode, "results": results}, default=__import__("_util").jdefault))