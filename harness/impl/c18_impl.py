"""Implementation side of C18: the same runner as C17 (public Classifier.classify, called twice on
one object and once on a fresh one, with the real PeriodicFinder wrapped by a logger that records
every get_region call and a summary of the LinkedUnitCollection it returned; independent
dimensionality of the wrapped copy).  The family, the bonding precondition and the contract F1 are
evaluated by harness/props/c18.py on what this runner reports."""
import os
import sys

sys.path.insert(0, os.path.dirname(os.path.abspath(__file__)))
import c17_impl  # noqa: E402  (installs the ext shim before importing matid)

if __name__ == "__main__":
    c17_impl.main()
