"""Implementation side of C12: the runner is shared with C07 (see c07_impl.py)."""
import os
import runpy

runpy.run_path(os.path.join(os.path.dirname(os.path.abspath(__file__)), "c07_impl.py"), run_name="__main__")
