"""Implementation side of C07 and C12 (shared runner; c12_impl.py executes this file).

request  {"cases": [{"id", "crystal": {cell, scaled_positions, numbers}, "tol"}], "families": bool}
per case  -> {
  "id", "error"?,
  "dataset":  the real spglib dataset fields the Coq models consume (wyckoffs, crystallographic_orbits,
              mapping_to_primitive, std_mapping_to_primitive, std_types, number, international, hall_number)
  "perm":     the letter permutation of the chosen normalizer, [[old, new]...], "identity": bool
  "sets":     get_wyckoff_sets_conventional(return_parameters=False): [[letter, element, Z, multiplicity, indices]]
  "letters"/"equiv": {"original", "primitive", "conventional"}
  "prim"/"conv": {cell, scaled_positions, numbers}
  "c07": the property's own predicates evaluated on the outputs (see c07_predicates)
  "c12": the property's own predicates evaluated on the outputs (see c12_predicates)
  "contract": S3 predicates on the dataset
}
Everything here observes public API results (plus `_best_transform`, the record of the chosen
normalizer) -- no source hooks.
"""
import json
import os
import sys
from collections import Counter

import numpy as np

sys.path.insert(0, os.path.dirname(os.path.abspath(__file__)))
from _util import time_limit, call_getters  # noqa

MULT = {"P": 1, "A": 2, "C": 2, "I": 2, "R": 3, "F": 4}


def g(ds, key):
    return ds[key] if isinstance(ds, dict) else getattr(ds, key)


def pdist_match(cell, pos_a, pos_b, tol):
    """for every row of pos_a the index of the row of pos_b at periodic distance <= tol (else -1)"""
    d = pos_a[:, None, :] - pos_b[None, :, :]
    d -= np.round(d)
    cart = d @ cell
    dist = np.linalg.norm(cart, axis=2)
    j = np.argmin(dist, axis=1)
    ok = dist[np.arange(len(pos_a)), j] <= tol
    return np.where(ok, j, -1)


# ---------------------------------------------------------------------------------------------------
# letters from the family semantics of the tables (a point has letter l iff it lies in family l and
# in no family of smaller multiplicity); numeric, tolerance in cartesian length
# ---------------------------------------------------------------------------------------------------
_KGRID = np.array([[i, j, k] for i in (-2, -1, 0, 1, 2) for j in (-2, -1, 0, 1, 2) for k in (-2, -1, 0, 1, 2)], dtype=float)
_FAM = {}


def family_data(sg):
    if sg in _FAM:
        return _FAM[sg]
    from matid.data.symmetry_data import WYCKOFF_SETS
    w = WYCKOFF_SETS[sg]
    tr = [np.zeros(3)] + [np.array(t, dtype=float) for t in np.array(w["translations"]).reshape(-1, 3)]
    fam = []
    for l, e in w.items():
        if l == "translations":
            continue
        Ms = np.array(e["matrices"], dtype=float)
        Cs = np.array(e["constants"], dtype=float)
        items = []
        for M, c in zip(Ms, Cs):
            # positions W.M + c: the row space of M; N = orthonormal basis of its orthogonal complement
            u, s, vt = np.linalg.svd(M)
            rank = int((s > 1e-9).sum())
            N = vt[rank:]
            for t in tr:
                items.append((N, c + t))
        fam.append((l, len(Ms) * len(tr), items))
    fam.sort(key=lambda x: x[1])
    _FAM[sg] = fam
    return fam


def in_family(items, x, cell, tol):
    for N, c in items:
        if N.shape[0] == 0:
            return True
        d = (x - c)[None, :] + _KGRID  # candidates d + k
        # component of (d + k) outside the row space, measured in cartesian length
        r = (d @ N.T) @ N
        if np.min(np.linalg.norm(r @ cell, axis=1)) <= tol:
            return True
    return False


def family_letters(sg, cell, pos, tol):
    fam = family_data(sg)
    out = []
    for x in pos:
        found = None
        amb = False
        for l, m, items in fam:
            if found is not None and m > found[1]:
                break
            if in_family(items, x, cell, tol):
                if found is not None:
                    amb = True
                else:
                    found = (l, m)
        out.append(None if found is None else (found[0] + ("?" if amb else "")))
    return out


# ---------------------------------------------------------------------------------------------------
def s3_contract(ds, numbers):
    """S3 on one dataset (oracle contract, evaluated -- never assumed silently)"""
    wy = list(g(ds, "wyckoffs"))
    orb = [int(x) for x in g(ds, "crystallographic_orbits")]
    m2p = [int(x) for x in g(ds, "mapping_to_primitive")]
    s2p = [int(x) for x in g(ds, "std_mapping_to_primitive")]
    st = [int(x) for x in g(ds, "std_types")]
    n = len(numbers)
    c = {}
    c["lengths"] = len(wy) == n and len(orb) == n and len(m2p) == n and len(s2p) == len(st)
    np_ = len(set(m2p))
    c["m2p_range"] = sorted(set(m2p)) == list(range(np_))
    c["s2p_range"] = sorted(set(s2p)) == list(range(np_))
    fib = {}
    for i, v in enumerate(m2p):
        fib.setdefault(v, []).append(i)
    c["m2p_fibres_uniform"] = all(len({(wy[i], orb[i], numbers[i]) for i in f}) == 1 for f in fib.values())
    c["m2p_fibres_equal_size"] = len({len(f) for f in fib.values()}) == 1
    centring = g(ds, "international")[0]
    mult = MULT.get(centring)
    sf = Counter(s2p)
    c["s2p_fibre_size_is_multiplicity"] = mult is not None and all(v == mult for v in sf.values())
    first = {}
    for i, v in enumerate(m2p):
        first.setdefault(v, i)
    c["std_types_consistent"] = c["s2p_range"] and all(st[j] == numbers[first[s2p[j]]] for j in range(len(st)))
    cls = {}
    for i in range(n):
        cls.setdefault(orb[i], set()).add((wy[i], numbers[i]))
    c["orbit_uniform"] = all(len(v) == 1 for v in cls.values())
    c["ok"] = all(c.values())
    return c


def c07_predicates(res, tol, want_families):
    import spglib
    conv = res["conv"]
    cell = np.array(conv["cell"])
    pos = np.array(conv["scaled_positions"])
    nums = np.array(conv["numbers"])
    n = len(nums)
    letters = res["letters"]["conventional"]
    sets = res["sets"]
    p = {}
    allidx = sorted(i for s in sets for i in s[4])
    p["partition"] = allidx == list(range(n))
    p["nonempty"] = all(len(s[4]) > 0 for s in sets)
    p["uniform"] = all(all(letters[i] == s[0] and int(nums[i]) == s[2] for i in s[4]) for s in sets)
    from ase.data import chemical_symbols
    p["element_symbol"] = all(s[1] == chemical_symbols[s[2]] for s in sets)
    p["multiplicity"] = all(s[3] == len(s[4]) for s in sets)
    keys = [(s[0], s[2]) for s in sets]
    p["sorted"] = keys == sorted(keys)
    # orbit closure with operations obtained independently on the returned conventional cell
    sym = spglib.get_symmetry((cell, pos, nums), symprec=tol)
    if sym is None:
        p["orbit_closure"] = None
        p["orbit_note"] = "spglib.get_symmetry failed on the returned cell"
    else:
        R = np.array(sym["rotations"])
        t = np.array(sym["translations"])
        img = np.empty((len(R), n), dtype=int)
        for k in range(len(R)):
            q = pos @ R[k].T + t[k]
            img[k] = pdist_match(cell, q, pos, 20 * tol)
        bad = None
        species_ok = bool(np.all(img >= 0)) and bool(np.all(nums[img] == nums[None, :]))
        if not species_ok:
            bad = "an operation of the returned cell does not map the atoms onto atoms of the same species"
        else:
            for s in sets:
                want = set(s[4])
                for i in s[4]:
                    if set(int(x) for x in img[:, i]) != want:
                        bad = {"set": s[:4], "atom": i, "orbit": sorted(set(int(x) for x in img[:, i])), "indices": s[4]}
                        break
                if bad:
                    break
        p["orbit_closure"] = bad is None
        p["orbit_note"] = bad
        p["n_ops"] = int(len(R))
    # letters an independent assignment gives to the returned structure
    ds2 = spglib.get_symmetry_dataset((cell, pos, nums), symprec=tol)
    p["letters_spglib"] = "inconclusive"
    if ds2 is not None:
        ident = np.allclose(g(ds2, "transformation_matrix"), np.eye(3), atol=1e-6) and \
            np.allclose((np.array(g(ds2, "origin_shift")) + 0.5) % 1.0 - 0.5, 0, atol=1e-6)
        p["returned_group"] = int(g(ds2, "number"))
        if g(ds2, "number") == res["dataset"]["number"] and ident:
            w2 = list(g(ds2, "wyckoffs"))
            p["letters_spglib"] = "agree" if w2 == list(letters) else "differ"
            if w2 != list(letters):
                p["letters_spglib_detail"] = [[i, letters[i], w2[i]] for i in range(n) if w2[i] != letters[i]][:6]
        # spglib's own equivalence on the returned cell must coincide with the sets as a partition
        if g(ds2, "number") == res["dataset"]["number"]:
            orb2 = [int(x) for x in g(ds2, "crystallographic_orbits")]
            part2 = sorted(sorted(i for i in range(n) if orb2[i] == v) for v in set(orb2))
            p["classes_spglib"] = part2 == sorted(sorted(s[4]) for s in sets)
    if want_families:
        fl = family_letters(res["dataset"]["number"], cell, pos, 20 * tol)
        diff = [[i, letters[i], fl[i]] for i in range(n) if fl[i] != letters[i]]
        p["letters_family"] = "agree" if not diff else ("ambiguous" if all(d[2] is not None and d[2].endswith("?") for d in diff) else "differ")
        if diff:
            p["letters_family_detail"] = diff[:6]
    return p


def c12_predicates(res, crystal, tol):
    import spglib
    p = {}
    ds = res["dataset"]
    n_o = len(crystal["numbers"])
    conv, prim = res["conv"], res["prim"]
    n_c, n_p = len(conv["numbers"]), len(prim["numbers"])
    L, E = res["letters"], res["equiv"]
    p["one_entry_per_atom"] = (len(L["original"]) == n_o and len(E["original"]) == n_o and len(L["conventional"]) == n_c
                               and len(E["conventional"]) == n_c and len(L["primitive"]) == n_p and len(E["primitive"]) == n_p)
    nums = {"original": crystal["numbers"], "conventional": conv["numbers"], "primitive": prim["numbers"]}

    def share(which):
        if len(L[which]) != len(nums[which]) or len(E[which]) != len(nums[which]):
            return False
        cls = {}
        for i, e in enumerate(E[which]):
            cls.setdefault(e, set()).add((L[which][i], nums[which][i]))
        return all(len(v) == 1 for v in cls.values())
    p["equivalent_share"] = {w: share(w) for w in ("original", "primitive", "conventional")}
    cnt = {w: Counter(zip(L[w], nums[w])) for w in nums}
    keys = set().union(*[set(c) for c in cnt.values()])
    p["count_ratio_conv_prim"] = all(cnt["conventional"][k] * n_p == cnt["primitive"][k] * n_c for k in keys)
    p["count_ratio_orig_prim"] = all(cnt["original"][k] * n_p == cnt["primitive"][k] * n_o for k in keys)
    mult = MULT.get(ds["international"][0])
    p["centring"] = ds["international"][0]
    p["multiplicity"] = mult
    p["prim_count"] = mult is not None and n_p * mult == n_c
    vc = abs(np.linalg.det(np.array(conv["cell"])))
    vp = abs(np.linalg.det(np.array(prim["cell"])))
    vo = abs(np.linalg.det(np.array(crystal["cell"])))
    p["prim_volume"] = mult is not None and abs(vp * mult - vc) <= 1e-9 * vc
    p["volume_per_atom"] = abs(vp / n_p - vo / n_o) <= 1e-3 * (vo / n_o)
    p["volume_per_atom_rel_err"] = float(abs(vp / n_p - vo / n_o) / (vo / n_o))
    pc = (np.array(prim["cell"]), np.array(prim["scaled_positions"]), np.array(prim["numbers"]))
    inside = np.all((pc[1] > -1e-9) & (pc[1] < 1 + 1e-9))
    p["prim_positions_wrapped"] = bool(inside)
    std = spglib.standardize_cell(pc, to_primitive=True, no_idealize=True, symprec=tol)
    p["is_primitive"] = std is not None and len(std[2]) == n_p
    dsp = spglib.get_symmetry_dataset(pc, symprec=tol)
    p["same_space_group"] = dsp is not None and int(g(dsp, "number")) == ds["number"]
    # the primitive system is the same crystal as the conventional one: every conventional atom is a
    # lattice image of a primitive atom of the same species
    cc = np.array(conv["cell"])
    cpos = np.array(conv["scaled_positions"]) @ cc @ np.linalg.inv(pc[0])
    m = pdist_match(pc[0], cpos, pc[1], 20 * tol)
    p["conv_atoms_are_images_of_prim"] = bool(np.all(m >= 0)) and bool(np.all(np.array(prim["numbers"])[m] == np.array(conv["numbers"])))
    return p


SHARED = {}
PREV = {}


def collect_reused(a):
    """the getters the properties talk about, on an analyzer that has seen other crystals before"""
    def lst(x, f):
        return [None if v is None else f(v) for v in x]
    sets = a.get_wyckoff_sets_conventional(return_parameters=False)
    return {"sets": [[str(s.wyckoff_letter), str(s.element), int(s.atomic_number), int(s.multiplicity), [int(i) for i in s.indices]] for s in sets],
            "letters": {"original": lst(a.get_wyckoff_letters_original(), str), "primitive": lst(a.get_wyckoff_letters_primitive(), str),
                        "conventional": lst(a.get_wyckoff_letters_conventional(), str)},
            "equiv": {"original": lst(a.get_equivalent_atoms_original(), int), "primitive": lst(a.get_equivalent_atoms_primitive(), int),
                      "conventional": lst(a.get_equivalent_atoms_conventional(), int)},
            "prim_numbers": [int(z) for z in a.get_primitive_system().get_atomic_numbers()],
            "conv_numbers": [int(z) for z in a.get_conventional_system().get_atomic_numbers()],
            "number": int(a.get_space_group_number()), "has_free": bool(a.get_has_free_wyckoff_parameters())}


def analyze(case, want_families):
    from ase import Atoms
    from matid.symmetry.symmetryanalyzer import SymmetryAnalyzer
    cr = case["crystal"]
    tol = case.get("tol", 1e-4)
    at = Atoms(numbers=cr["numbers"], cell=cr["cell"], scaled_positions=cr["scaled_positions"], pbc=True)
    res = {"id": case["id"]}
    a = SymmetryAnalyzer(at, symmetry_tol=tol)
    ds = a.get_symmetry_dataset()
    res["dataset"] = {
        "wyckoffs": [str(x) for x in g(ds, "wyckoffs")],
        "orbits": [int(x) for x in g(ds, "crystallographic_orbits")],
        "m2p": [int(x) for x in g(ds, "mapping_to_primitive")],
        "std_m2p": [int(x) for x in g(ds, "std_mapping_to_primitive")],
        "std_types": [int(x) for x in g(ds, "std_types")],
        "number": int(g(ds, "number")), "international": str(g(ds, "international")),
        "hall_number": int(g(ds, "hall_number")),
    }
    res["contract"] = s3_contract(ds, [int(z) for z in cr["numbers"]])

    def lst(x, f):
        return [None if v is None else f(v) for v in x]

    # the ORDER in which a caller asks is not prescribed: one case in three asks for the per-atom data of the original
    # system (and the free-parameter flag) before anything else, one in three asks for everything in reverse order
    # ... and one in four first calls a pseudo-random selection of ALL public argument-less getters of the analyzer, shuffled
    # (a replay hands the recorded list back)
    order = case["call_order"] if case.get("call_order") is not None else case["id"] % 4
    if order == 3 or isinstance(order, list):
        order = call_getters(a, seed=case["id"], names=order if isinstance(order, list) else None)
    res["call_order"] = order
    got = {}
    getters = [
        ("sets", lambda: a.get_wyckoff_sets_conventional(return_parameters=False)),
        ("conv", lambda: a.get_conventional_system()),
        ("prim", lambda: a.get_primitive_system()),
        ("l_orig", lambda: a.get_wyckoff_letters_original()),
        ("l_prim", lambda: a.get_wyckoff_letters_primitive()),
        ("l_conv", lambda: a.get_wyckoff_letters_conventional()),
        ("e_orig", lambda: a.get_equivalent_atoms_original()),
        ("e_prim", lambda: a.get_equivalent_atoms_primitive()),
        ("e_conv", lambda: a.get_equivalent_atoms_conventional()),
    ]
    if order == 1:
        a.get_has_free_wyckoff_parameters()
        getters = [g_ for g_ in getters if g_[0] in ("l_orig", "e_orig")] + [g_ for g_ in getters if g_[0] not in ("l_orig", "e_orig")]
    elif order == 2:
        getters = list(reversed(getters))
    for name, fn in getters:
        got[name] = fn()
    sets, conv, prim = got["sets"], got["conv"], got["prim"]
    res["sets"] = [[str(s.wyckoff_letter), str(s.element), int(s.atomic_number), int(s.multiplicity), [int(i) for i in s.indices]] for s in sets]
    res["letters"] = {"original": lst(got["l_orig"], str), "primitive": lst(got["l_prim"], str), "conventional": lst(got["l_conv"], str)}
    res["equiv"] = {"original": lst(got["e_orig"], int), "primitive": lst(got["e_prim"], int), "conventional": lst(got["e_conv"], int)}
    bt = a._best_transform
    res["perm"] = [[str(k), None if v is None else str(v)] for k, v in bt["permutations"].items()]
    res["identity"] = bool(bt.get("identity", False))

    def sysd(s):
        return {"cell": np.array(s.get_cell()).tolist(), "scaled_positions": s.get_scaled_positions(wrap=False).tolist(),
                "numbers": [int(z) for z in s.get_atomic_numbers()]}
    res["conv"] = sysd(conv)
    res["prim"] = sysd(prim)
    res["c07"] = c07_predicates(res, tol, want_families)
    res["c12"] = c12_predicates(res, cr, tol)
    # history: ONE analyzer object per tolerance is handed every crystal of this process through set_system(); every getter
    # must answer as the fresh analyzer above did
    try:
        sh = SHARED.get(tol)
        if sh is None:
            sh = SHARED[tol] = SymmetryAnalyzer(at.copy(), symmetry_tol=tol)
        else:
            sh.set_system(at.copy())
        got = collect_reused(sh)
        want = {"sets": res["sets"], "letters": res["letters"], "equiv": res["equiv"], "prim_numbers": res["prim"]["numbers"],
                "conv_numbers": res["conv"]["numbers"], "number": res["dataset"]["number"], "has_free": bool(a.get_has_free_wyckoff_parameters())}
        diff = [k for k in want if got[k] != want[k]]
        res["reuse"] = {"same": not diff, "differs_in": diff, "previous_crystal": PREV.get(tol) if diff else None,
                        "reused": {k: got[k] for k in diff}}
    except Exception as e:  # noqa
        res["reuse"] = {"same": False, "differs_in": ["raised " + type(e).__name__ + ": " + str(e)[:150]], "previous_crystal": PREV.get(tol)}
    PREV[tol] = cr
    res["c07"]["analyzer_reuse"] = res["reuse"]["same"]
    res["c12"]["analyzer_reuse"] = res["reuse"]["same"]
    return res


def main():
    req = json.load(sys.stdin)
    out = []
    for case in req["cases"]:
        try:
            with time_limit(req.get("time_limit", 120)):
                out.append(analyze(case, req.get("families", True)))
        except Exception as e:  # the analyzer failing on a family crystal is itself a finding
            import traceback
            out.append({"id": case["id"], "error": type(e).__name__ + ": " + str(e)[:300], "trace": traceback.format_exc()[-800:]})
    def enc(o):
        if isinstance(o, np.bool_):
            return bool(o)
        if isinstance(o, np.integer):
            return int(o)
        if isinstance(o, np.floating):
            return float(o)
        if isinstance(o, np.ndarray):
            return o.tolist()
        raise TypeError(type(o).__name__)
    print(json.dumps({"cases": out}, default=enc))


if __name__ == "__main__":
    main()
