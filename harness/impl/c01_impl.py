"""Implementation side of C01: runs SBC.get_clusters (scripted finder / real finder with logging)
and reports everything the harness compares with the Coq model, plus the property's own predicate
evaluated directly on the returned clusters.

stdin : {"cases": [case, ...]}     stdout (last line): {"results": [...], "shim": mode}
case  : {"id", "mode": "script"|"real", "structure": {numbers, positions, cell, pbc},
         "params": {bond_threshold, merge_threshold, merge_radius, max_cell_size, pos_tol, radii, seed},
         "regions": [...], "script": [...],            (mode script)
         "matrix": bool (exact rational distance matrix wanted), "twice": bool, "time_limit": s}
"""
import json
import sys
import os
import time
from fractions import Fraction

sys.path.insert(0, os.path.dirname(os.path.abspath(__file__)))
import sbc_common as S  # noqa: E402  (installs the ext shim before importing matid)
from _util import time_limit, CaseTimeout  # noqa: E402
import numpy as np  # noqa: E402


def call_kwargs(case):
    p = case["params"]
    kw = {}
    for k in ("bond_threshold", "merge_threshold", "merge_radius", "max_cell_size", "pos_tol", "seed",
              "angle_tol", "overlap_threshold"):
        if k in p:
            kw[k] = p[k]
    numbers = case["structure"]["numbers"]
    kw["radii"] = S.resolve_radii(p.get("radii", "covalent"), numbers)
    return kw


def defaults(p):
    d = {"bond_threshold": 0.65, "merge_threshold": 0.5, "merge_radius": 1, "max_cell_size": 6, "pos_tol": 0.7,
         "seed": 7}
    d.update({k: v for k, v in p.items() if k in d})
    return d


def run_once(case, rec):
    at = S.atoms_from(case["structure"])
    before = S.atoms_state(at)
    if case["mode"] == "script":
        fcls = S.make_stub_finder(rec, case["regions"], case["script"])
    else:
        fcls = S.make_logging_finder(rec)
    err = None
    clusters = None
    with S.patched_sbc(rec, fcls):
        try:
            clusters = S.SBC().get_clusters(at, **call_kwargs(case))
        except CaseTimeout:
            raise
        except Exception as e:  # classified by the harness
            import traceback
            where = ""
            for fr in traceback.extract_tb(e.__traceback__):
                if "/matid/" in fr.filename:
                    where = "%s:%s" % (os.path.basename(fr.filename), fr.name)
            err = {"type": type(e).__name__, "msg": str(e)[:300], "where": where}
    after = S.atoms_state(at)
    return at, clusters, err, before == after


def predicate(at, clusters, case):
    """C01's own predicate on the returned clusters (independent of the model)."""
    p = defaults(case["params"])
    n = len(at)
    numbers = at.get_atomic_numbers()
    fails = []
    seen = {}
    radii_arr = np.asarray(S.matid.geometry.get_radii(S.resolve_radii(case["params"].get("radii", "covalent"), numbers), numbers), dtype=float)
    sure, maybe = S.mic_bond_graph(at, radii_arr, p["bond_threshold"])
    for k, c in enumerate(clusters):
        idx = list(c.indices)
        if len(idx) == 0:
            fails.append({"cluster": k, "what": "empty"})
            continue
        if any(int(i) != i for i in idx) or any(i < 0 or i >= n for i in idx):
            fails.append({"cluster": k, "what": "index out of range", "idx": [int(i) for i in idx]})
            continue
        if len(set(idx)) != len(idx):
            fails.append({"cluster": k, "what": "duplicate index"})
        for i in idx:
            if int(i) in seen:
                fails.append({"cluster": k, "what": "not disjoint", "atom": int(i), "other": seen[int(i)]})
                break
        for i in idx:
            seen.setdefault(int(i), k)
        if any(int(numbers[i]) not in set(int(z) for z in c.species) for i in idx):
            fails.append({"cluster": k, "what": "species"})
        if not S.connected([int(i) for i in idx], maybe):
            fails.append({"cluster": k, "what": "not connected", "idx": sorted(int(i) for i in idx)})
        cell = c.get_cell()
        if cell is None or int(sum(bool(b) for b in cell.get_pbc())) not in (2, 3):
            fails.append({"cluster": k, "what": "prototype cell periodicity",
                          "pbc": None if cell is None else [bool(b) for b in cell.get_pbc()]})
    return fails


def do_case(case):
    out = {"id": case["id"]}
    t0 = time.time()
    rec = S.Recorder()
    st = case["structure"]
    cell = np.array(st["cell"], dtype=float)
    out["zero"] = [bool(not cell[i].any()) for i in range(3)]
    try:
        with time_limit(case.get("time_limit", 120)):
            at, clusters, err, same = run_once(case, rec)
            out["immutable"] = same
            out["error"] = err
            if err is None:
                out["calls"] = rec.calls
                out["stages"] = rec.stages
                out["final"] = [[int(i) for i in c.indices] for c in clusters]
                out["n"] = len(at)
                p = defaults(case["params"])
                D = np.array(rec.distances.dist_matrix_radii_mic, dtype=float)
                out["d_symmetric"] = bool((D == D.T).all())
                out["d_finite"] = bool(np.isfinite(D).all())
                if case.get("matrix"):
                    out["D"] = [[S.frac(x) for x in row] for row in D]
                else:
                    out["near"] = S.neighbour_lists(D, p["merge_radius"], strict=True)
                    thr = p["bond_threshold"]
                    Dc = np.clip(D, 0, 1.1 * thr)
                    out["bond"] = S.neighbour_lists(Dc, thr, strict=False)
                t = float(p["merge_threshold"])
                mid = (Fraction(t) + Fraction(float(np.nextafter(t, np.inf)))) / 2
                out["merge_threshold_eff"] = [str(mid.numerator), str(mid.denominator)]
                out["predicate_failures"] = predicate(at, clusters, case)
                # F0 per call
                f0 = []
                for k, c in enumerate(rec.calls):
                    ok = c["seed"] in c["mask"] and all(0 <= i < len(at) for i in c["mask"])
                    if c["basis"] is not None:
                        ok = ok and all(0 <= i < len(at) for i in c["basis"]) and c["pbc"] is not None \
                            and sum(c["pbc"]) in (2, 3) and c.get("basis_raw_ok", True)
                    if c.get("mask_len", len(at)) != len(at):
                        ok = False
                    if not ok:
                        f0.append(k)
                out["f0_violations"] = f0
                if case.get("twice"):
                    rec2 = S.Recorder()
                    at2, clusters2, err2, _ = run_once(case, rec2)
                    out["deterministic"] = (err2 is None and
                                            [[int(i) for i in c.indices] for c in clusters2] == out["final"]
                                            and [c["seed"] for c in rec2.calls] == [c["seed"] for c in rec.calls])
    except CaseTimeout:
        out["timeout"] = True
        out["calls_made"] = len(rec.calls)
        out["n"] = len(st["numbers"])
        out["seeds_head"] = [c["seed"] for c in rec.calls[:50]]
    out["wall"] = round(time.time() - t0, 3)
    return out


def main():
    req = json.load(sys.stdin)
    res = [do_case(c) for c in req["cases"]]
    print(json.dumps({"results": res, "shim": S.SHIM_MODE}, default=__import__("_util").jdefault))
if __name__ == "__main__":
    main()
