"""Implementation side of C13: Cluster.get_dimensionality() (shortcut) against
matid.geometry.get_dimensionality(cluster.get_atoms(), bond_threshold, radii=<radii used>) (direct),
and random operation histories on real Cluster objects observed through a pass-through wrapper of
matid.geometry.get_dimensionality.

stdin : {"cases": [case, ...]}    case as in c01_impl plus "history": {"seed": int, "n_ops": int, "fresh": bool}
"""
import json
import os
import random
import sys
import time

sys.path.insert(0, os.path.dirname(os.path.abspath(__file__)))
import sbc_common as S  # noqa: E402
from _util import time_limit, CaseTimeout  # noqa: E402
import numpy as np  # noqa: E402
from c01_impl import call_kwargs, defaults  # noqa: E402

import matid.geometry as G  # noqa: E402
from matid.clustering.cluster import Cluster  # noqa: E402


def dimval(d):
    return None if d is None else int(d)


def direct_value(cluster, case, full_radii):
    p = defaults(case["params"])
    spec = case["params"].get("radii", "covalent")
    idx = list(cluster.indices)
    if isinstance(spec, dict):
        rad = np.asarray(full_radii, dtype=float)[idx]
    else:
        rad = spec
    return dimval(G.get_dimensionality(cluster.get_atoms(), p["bond_threshold"], radii=rad))


def property_on_clusters(clusters, case, full_radii):
    rows = []
    for k, c in enumerate(clusters):
        row = {"cluster": k, "n": len(c.indices)}
        try:
            s1 = dimval(c.get_dimensionality())
            s2 = dimval(c.get_dimensionality())
            d = direct_value(c, case, full_radii)
            row.update({"shortcut": s1, "again": s2, "direct": d, "ok": (s1 == d and s2 == s1)})
        except CaseTimeout:
            raise
        except Exception as e:
            row.update({"error": type(e).__name__ + ": " + str(e)[:200], "ok": False})
        rows.append(row)
    return rows


class CallSpy:
    """pass-through wrapper of matid.geometry.get_dimensionality that records the arguments"""

    def __init__(self):
        self.calls = []
        self.orig = G.get_dimensionality

    def __enter__(self):
        spy = self

        def wrapped(system, cluster_threshold=None, dist_matrix_radii_mic_1x=None, return_clusters=False, **kw):
            spy.calls.append({"positions": np.array(system.get_positions()), "numbers": system.get_atomic_numbers().tolist(),
                              "thr": cluster_threshold,
                              "matrix": None if dist_matrix_radii_mic_1x is None else np.array(dist_matrix_radii_mic_1x),
                              "radii": kw.get("radii", "ABSENT")})
            return spy.orig(system, cluster_threshold, dist_matrix_radii_mic_1x=dist_matrix_radii_mic_1x,
                            return_clusters=return_clusters, **kw)

        G.get_dimensionality = wrapped
        import matid.geometry
        self.saved_pkg = matid.geometry.get_dimensionality
        matid.geometry.get_dimensionality = wrapped
        return self

    def __exit__(self, *exc):
        import matid.geometry
        matid.geometry.get_dimensionality = self.saved_pkg
        G.get_dimensionality = self.orig
        return False


def describe_call(call, system, D, full_radii, thr, lists):
    """identify the arguments of a recorded call by the index lists of the history"""
    pos = system.get_positions()
    atoms = None
    for l in lists:
        if len(l) == len(call["positions"]) and np.array_equal(pos[l], call["positions"]):
            atoms = l
            break
    cands = []
    M = call["matrix"]
    if M is not None:
        for l in lists:
            if M.shape == (len(l), len(l)):
                sub = D[np.ix_(l, l)]
                if np.array_equal(M, sub) or np.array_equal(M, np.clip(sub, 0, 1.1 * thr)):
                    if l not in cands:
                        cands.append(l)
    r = call["radii"]
    if isinstance(r, str) and r == "ABSENT":
        rad = {"kind": "default"}
    elif full_radii is not None and atoms is not None and not isinstance(r, str) \
            and np.array_equal(np.asarray(r, dtype=float), np.asarray(full_radii, dtype=float)[atoms]):
        rad = {"kind": "sel", "list": atoms}
    else:
        rad = {"kind": "other", "repr": repr(r)[:80]}
    return {"atoms": atoms, "matrix_given": M is not None, "mat_candidates": cands, "radii": rad,
            "thr_ok": call["thr"] == thr}


def run_history(cluster, rng, n_ops, natoms, D, full_radii, thr, prefix_lists):
    """apply random operations; return ops + observations"""
    system = cluster._system
    lists = [list(l) for l in prefix_lists] + [list(cluster.indices)]
    ops, seen = [], []
    pool = list(range(natoms))
    for _ in range(n_ops):
        r = rng.random()
        made = None
        with CallSpy() as spy:
            if r < 0.3:
                ops.append({"op": "GetMatrix"})
                cluster._get_distance_matrix_radii_mic()
            elif r < 0.6:
                cur = list(cluster.indices)
                kind = rng.random()
                if kind < 0.5 and len(cur) > 1:
                    new = rng.sample(cur, rng.randint(1, len(cur) - 1))      # strict sublist (as clean does)
                elif kind < 0.7:
                    new = list(cur)
                    rng.shuffle(new)
                else:
                    new = rng.sample(pool, rng.randint(1, min(natoms, max(1, len(cur) + 2))))
                ops.append({"op": "SetIndices", "list": [int(i) for i in new]})
                lists.append([int(i) for i in new])
                cluster.indices = [int(i) for i in new]
            else:
                ops.append({"op": "GetDim"})
                try:
                    val = cluster.get_dimensionality()
                except CaseTimeout:
                    raise
                except Exception as e:  # the shortcut raising is an answer that differs from the direct evaluation
                    val = "raised " + type(e).__name__
                if spy.calls:
                    made = describe_call(spy.calls[0], system, D, full_radii, thr, lists)
                    made["n_calls"] = len(spy.calls)
                # the property's own predicate at this point of the history
                idx = list(cluster.indices)
                dkw = {} if full_radii is None else {"radii": np.asarray(full_radii, dtype=float)[idx]}
                direct = dimval(spy.orig(system[idx], thr, **dkw))
                ops[-1]["shortcut"] = val if isinstance(val, str) else dimval(val)
                ops[-1]["direct"] = direct
        seen.append({"cache": cluster._distance_matrix_radii_mic is not None,
                     "dim": cluster._dimensionality is not None, "call": made})
    return ops, seen


def do_case(case):
    out = {"id": case["id"]}
    t0 = time.time()
    rec = S.Recorder()
    try:
        with time_limit(case.get("time_limit", 240)):
            at = S.atoms_from(case["structure"])
            if case["mode"] == "script":
                fcls = S.make_stub_finder(rec, case["regions"], case["script"])
            else:
                fcls = S.make_logging_finder(rec)
            kw = call_kwargs(case)
            with S.patched_sbc(rec, fcls):
                try:
                    clusters = S.SBC().get_clusters(at, **kw)
                except CaseTimeout:
                    raise
                except Exception as e:
                    out["error"] = {"type": type(e).__name__, "msg": str(e)[:200]}
                    out["wall"] = round(time.time() - t0, 3)
                    return out
            p = defaults(case["params"])
            numbers = at.get_atomic_numbers()
            full_radii = np.asarray(G.get_radii(kw["radii"], numbers), dtype=float)
            out["n"] = len(at)
            out["n_clusters"] = len(clusters)
            out["cleaned"] = sum(1 for a, b in zip([c for c in rec.stages.get("local", []) if c["idx"]], rec.stages.get("clean", []))
                                 if len(a["idx"]) != len(b["idx"]))
            out["merged"] = sum(1 for c in rec.stages.get("clean", []) if c["merged"])
            out["state_after_pipeline"] = [{"cache": c._distance_matrix_radii_mic is not None,
                                            "dim": c._dimensionality is not None,
                                            "radii": c._radii is not None} for c in clusters]
            hist = case.get("history")
            if hist:
                D = np.array(rec.distances.dist_matrix_radii_mic, dtype=float)
                rng = random.Random(hist["seed"])
                hs = []
                pre = [c for c in rec.stages.get("local", []) if c["idx"]]
                for k, c in enumerate(clusters):
                    if k >= hist.get("max_clusters", 3):
                        break
                    pre_idx = pre[k]["idx"] if k < len(pre) else list(c.indices)
                    idx0 = [int(i) for i in c.indices]
                    ops, seen = run_history(c, rng, hist["n_ops"], len(at), D, full_radii if c._radii is not None else None,
                                            p["bond_threshold"], [pre_idx])
                    hs.append({"kind": "pipeline", "pre": [int(i) for i in pre_idx], "idx0": idx0,
                               "radii": c._radii is not None, "ops": ops, "seen": seen})
                # a cluster built through the public constructor
                if hist.get("fresh", True):
                    sysc = rec.system
                    l0 = rng.sample(range(len(at)), rng.randint(1, len(at)))
                    with_r = rng.random() < 0.7
                    fresh = Cluster(l0, set(int(z) for z in numbers[l0]), None, system=sysc, distances=rec.distances,
                                    radii=full_radii if with_r else None, bond_threshold=p["bond_threshold"])
                    ops, seen = run_history(fresh, rng, hist["n_ops"], len(at), D, full_radii if with_r else None,
                                            p["bond_threshold"], [])
                    hs.append({"kind": "fresh", "pre": None, "idx0": [int(i) for i in l0], "radii": with_r, "ops": ops, "seen": seen})
                out["histories"] = hs
            else:
                out["property"] = property_on_clusters(clusters, case, full_radii)
    except CaseTimeout:
        out["timeout"] = True
    out["wall"] = round(time.time() - t0, 3)
    return out


def main():
    req = json.load(sys.stdin)
    res = [do_case(c) for c in req["cases"]]
    print(json.dumps({"results": res, "shim": S.SHIM_MODE}, default=__import__("_util").jdefault))
if __name__ == "__main__":
    main()
