"""Implementation side of C14 (and shared table predicates): works on the tables *as imported*
from /repo (matid.data.symmetry_data) and on SymmetryAnalyzer.

requests:
  dump        -> canonical sha of the imported tables (translator round trip)
  predicates  -> evaluate the property's own predicates on table coordinates
                 {"exprs": [[sg, letter, idx]], "orbits": [[sg, letter]], "norms": [[sg, k]]}
  info        -> [{id, crystal}] -> number / crystal system / bravais lattice / point group via the analyzer
  probes      -> [{id, crystal, sg, k}] letter permutation of normalizer k observed through spglib
"""
import hashlib
import itertools
import json
import os
import re
import sys
from fractions import Fraction as Fr

import numpy as np

sys.path.insert(0, os.path.dirname(os.path.abspath(__file__)))
from _util import time_limit  # noqa

req = json.load(sys.stdin)
out = {}

from matid.data.symmetry_data import SPACE_GROUP_INFO, WYCKOFF_SETS, CHIRALITY_PRESERVING_EUCLIDEAN_NORMALIZERS as NORMS  # noqa


def fr(x):
    return Fr(repr(float(x)))


def snap(x):
    f = fr(x)
    k = (f * 24 + Fr(1, 2)).__floor__()
    return k if abs(f - Fr(k, 24)) <= Fr(1, 10**7) else None


def letters(sg):
    return [k for k in WYCKOFF_SETS[sg] if k != "translations"]


def exprs(sg, l):
    e = WYCKOFF_SETS[sg][l]
    res = []
    for M, C in zip(e["matrices"], e["constants"]):
        Mi = tuple(tuple(int(round(v)) for v in row) for row in M)
        if not np.array_equal(np.array(Mi, dtype=float), np.array(M, dtype=float)):
            return None
        c = [snap(v) for v in C]
        if any(v is None for v in c):
            return None
        res.append((Mi, tuple(v % 24 for v in c)))
    return res


def trans(sg):
    t = np.array(WYCKOFF_SETS[sg]["translations"]).reshape(-1, 3)
    return [(0, 0, 0)] + [tuple(snap(v) % 24 for v in row) for row in t]


def full(sg, l):
    es = exprs(sg, l)
    return [(M, tuple((c[i] + t[i]) % 24 for i in range(3))) for t in trans(sg) for (M, c) in es]


def act(op, e):
    R, t = op
    M, c = e
    M2 = tuple(tuple(sum(R[i][k] * M[v][k] for k in range(3)) for i in range(3)) for v in range(3))
    c2 = tuple((sum(R[i][k] * c[k] for k in range(3)) + t[i]) % 24 for i in range(3))
    return (M2, c2)


def general_letter(sg):
    for l in letters(sg):
        if len(WYCKOFF_SETS[sg][l]["variables"]) == 3:
            return l


def group(sg):
    gl = general_letter(sg)
    M1, c1 = exprs(sg, gl)[0]
    G = []
    for M, c in full(sg, gl):
        R = tuple(tuple(M[v][i] for v in range(3)) for i in range(3))
        t = tuple((c[i] - sum(R[i][k] * c1[k] for k in range(3))) % 24 for i in range(3))
        G.append((R, t))
    return G


def compose(a, b):
    R = tuple(tuple(sum(a[0][i][k] * b[0][k][j] for k in range(3)) for j in range(3)) for i in range(3))
    t = tuple((sum(a[0][i][k] * b[1][k] for k in range(3)) + a[1][i]) % 24 for i in range(3))
    return (R, t)


def det3(R):
    return (R[0][0] * (R[1][1] * R[2][2] - R[1][2] * R[2][1]) - R[0][1] * (R[1][0] * R[2][2] - R[1][2] * R[2][0])
            + R[0][2] * (R[1][0] * R[2][1] - R[1][1] * R[2][0]))


def inv_op(a):
    R, t = a
    d = det3(R)
    adj = ((R[1][1] * R[2][2] - R[1][2] * R[2][1], R[0][2] * R[2][1] - R[0][1] * R[2][2], R[0][1] * R[1][2] - R[0][2] * R[1][1]),
           (R[1][2] * R[2][0] - R[1][0] * R[2][2], R[0][0] * R[2][2] - R[0][2] * R[2][0], R[0][2] * R[1][0] - R[0][0] * R[1][2]),
           (R[1][0] * R[2][1] - R[1][1] * R[2][0], R[0][1] * R[2][0] - R[0][0] * R[2][1], R[0][0] * R[1][1] - R[0][1] * R[1][0]))
    Ri = tuple(tuple(d * v for v in row) for row in adj)
    ti = tuple((-sum(Ri[i][k] * t[k] for k in range(3))) % 24 for i in range(3))
    return (Ri, ti)


TOK = re.compile(r"\s*([+-]?)\s*(?:(\d+)(?:/(\d+))?)?\s*([xyz]?)")


def parse_expr(s):
    """'-x+y', '2x', 'z+1/8', '11/12' -> (cx, cy, cz, const) or None"""
    s = s.strip()
    if not s:
        return None
    pos = 0
    co = {"x": Fr(0), "y": Fr(0), "z": Fr(0), "": Fr(0)}
    first = True
    while pos < len(s):
        m = TOK.match(s, pos)
        if not m or m.end() == pos:
            return None
        sign, num, den, var = m.groups()
        if not first and sign == "":
            return None
        if num is None and var == "":
            return None
        if den is not None and var != "":
            return None
        v = Fr(int(num) if num else 1, int(den) if den else 1)
        if sign == "-":
            v = -v
        co[var] += v
        pos = m.end()
        first = False
    return (co["x"], co["y"], co["z"], co[""])


def pred_expr(sg, l, idx):
    e = WYCKOFF_SETS[sg][l]
    M = e["matrices"][idx]
    C = e["constants"][idx]
    for comp, s in enumerate(e["expressions"][idx]):
        p = parse_expr(s)
        if p is None:
            return {"ok": False, "why": "unparsable %r" % s}
        if [p[0], p[1], p[2]] != [fr(M[v][comp]) for v in range(3)]:
            return {"ok": False, "why": "matrix column %d = %r but expression %r" % (comp, [float(M[v][comp]) for v in range(3)], s)}
        k = snap(C[comp])
        if k is None or Fr(k, 24) != p[3]:
            return {"ok": False, "why": "constant %r but expression %r" % (float(C[comp]), s)}
    return {"ok": True}


def pred_orbit(sg, l):
    G = group(sg)
    es = exprs(sg, l)
    if es is None:
        return {"ok": False, "why": "entry does not convert to exact form"}
    E = full(sg, l)
    Es = set(E)
    if len(Es) != len(E):
        return {"ok": False, "why": "duplicate expressions"}
    for g in G:
        for e in E:
            if act(g, e) not in Es:
                return {"ok": False, "why": "not closed under the group: image of %r missing" % (e,)}
    if {act(g, es[0]) for g in G} != Es:
        return {"ok": False, "why": "not a single orbit of the first representative"}
    # substitute a concrete parameter value: the numeric positions must form the orbit too
    return {"ok": True}


def norm_op(sg, k):
    T = NORMS[sg][k]["transformation"]
    R = tuple(tuple(int(round(v)) for v in row[:3]) for row in T[:3])
    t = tuple(snap(v) % 24 for v in T[:3, 3])
    return (R, t)


METRICS = {"tri": None}


def metric_basis(sg):
    E = lambda i, j: [[1 if (a, b) in ((i, j), (j, i)) else 0 for b in range(3)] for a in range(3)]  # noqa
    if sg <= 2:
        return [E(0, 0), E(1, 1), E(2, 2), E(0, 1), E(0, 2), E(1, 2)]
    if sg <= 15:
        return [E(0, 0), E(1, 1), E(2, 2), E(0, 2)]
    if sg <= 74:
        return [E(0, 0), E(1, 1), E(2, 2)]
    if sg <= 142:
        return [[[1, 0, 0], [0, 1, 0], [0, 0, 0]], E(2, 2)]
    if sg <= 194:
        return [[[2, -1, 0], [-1, 2, 0], [0, 0, 0]], E(2, 2)]
    return [[[1, 0, 0], [0, 1, 0], [0, 0, 1]]]


def pred_norm(sg, k):
    G = group(sg)
    Gs = set(G)
    n = norm_op(sg, k)
    R = np.array(n[0])
    res = {}
    res["unimodular"] = abs(det3(n[0])) == 1
    if res["unimodular"]:
        ni = inv_op(n)
        res["normalises"] = all(compose(n, compose(g, ni)) in Gs for g in G)
    else:
        res["normalises"] = False
    res["metric"] = all(np.array_equal(R.T @ np.array(B) @ R, np.array(B)) for B in metric_basis(sg))
    chiral = all(det3(g[0]) == 1 for g in G)
    res["handedness"] = (not chiral) or det3(n[0]) == 1
    res["group_is_chiral"] = chiral
    res["det"] = det3(n[0])
    res["ok"] = all(res[x] for x in ("unimodular", "normalises", "metric", "handedness"))
    return res


def _make_canon():
    def canon(x):
        if isinstance(x, dict):
            return {str(k): canon(v) for k, v in sorted(x.items(), key=lambda kv: str(kv[0]))}
        if isinstance(x, (set, frozenset)):
            return sorted(canon(v) for v in x)
        if isinstance(x, np.ndarray):
            return canon(x.tolist())
        if isinstance(x, (list, tuple)):
            return [canon(v) for v in x]
        if isinstance(x, (float, np.floating)):
            f = fr(x)
            return "%d/%d" % (f.numerator, f.denominator)
        if isinstance(x, (int, np.integer)):
            return "%d/1" % int(x)
        return x
    return canon


def tables_sha():
    canon = _make_canon()
    h = hashlib.sha256()
    for name, obj in (("info", SPACE_GROUP_INFO), ("wyck", WYCKOFF_SETS), ("norms", NORMS)):
        h.update(json.dumps(canon(obj), sort_keys=True).encode())
    return h.hexdigest()


def entry_shas():
    canon = _make_canon()
    d = {}
    for sg in WYCKOFF_SETS:
        for l, e in WYCKOFF_SETS[sg].items():
            d["wyck:%s:%s" % (sg, l)] = hashlib.sha256(json.dumps(canon(e), sort_keys=True).encode()).hexdigest()
    for sg in NORMS:
        for k, n in enumerate(NORMS[sg]):
            d["norm:%s:%d" % (sg, k)] = hashlib.sha256(json.dumps(canon(n), sort_keys=True).encode()).hexdigest()
    for sg in SPACE_GROUP_INFO:
        d["info:%s" % sg] = hashlib.sha256(json.dumps(canon(SPACE_GROUP_INFO[sg]), sort_keys=True).encode()).hexdigest()
    return d


if "dump" in req:
    out["dump_sha"] = tables_sha()

ENTRIES_AT_IMPORT = entry_shas() if req.get("use_then_dump") else None

if "predicates" in req:
    p = req["predicates"]
    r = {"exprs": [], "orbits": [], "norms": []}
    for sg, l, idx in p.get("exprs", []):
        r["exprs"].append([sg, l, idx, pred_expr(sg, l, idx)])
    for sg, l in p.get("orbits", []):
        r["orbits"].append([sg, l, pred_orbit(sg, l)])
    for sg, k in p.get("norms", []):
        r["norms"].append([sg, k, pred_norm(sg, k)])
    out["predicates"] = r

if "info" in req or "probes" in req:
    import spglib
    from ase import Atoms
    from matid.symmetry.symmetryanalyzer import SymmetryAnalyzer

if "info" in req:
    rows = []
    SHARED = None
    for c in req["info"]:
        cr = c["crystal"]
        at = Atoms(numbers=cr["numbers"], cell=cr["cell"], scaled_positions=cr["scaled_positions"], pbc=True)
        try:
            with time_limit(120):
                a = SymmetryAnalyzer(at, symmetry_tol=c.get("tol", 1e-3))
                rows.append({"id": c["id"], "number": int(a.get_space_group_number()), "system": a.get_crystal_system(),
                             "bravais": a.get_bravais_lattice(), "pointgroup": a.get_point_group()})
                # history: ONE analyzer handed every crystal of this process through set_system(); its labels must be those
                # of the fresh analyzer above
                try:
                    if SHARED is None:
                        SHARED = SymmetryAnalyzer(at.copy(), symmetry_tol=c.get("tol", 1e-3))
                    else:
                        SHARED.set_system(at.copy())
                    rows[-1]["reused"] = {"number": int(SHARED.get_space_group_number()), "system": SHARED.get_crystal_system(),
                                          "bravais": SHARED.get_bravais_lattice(), "pointgroup": SHARED.get_point_group()}
                except Exception as e2:
                    rows[-1]["reused"] = {"error": type(e2).__name__ + ": " + str(e2)[:120]}
                if req.get("use_then_dump"):
                    # use the library the way callers do; the tables must still be the tables afterwards
                    try:
                        a.get_conventional_system(); a.get_primitive_system(); a.get_material_id()
                        a.get_wyckoff_sets_conventional(return_parameters=True)
                        a.get_wyckoff_letters_original(); a.get_is_chiral(); a.get_has_free_wyckoff_parameters()
                    except Exception:
                        pass
        except Exception as e:
            rows.append({"id": c["id"], "error": type(e).__name__ + ": " + str(e)[:200]})
    out["info"] = rows

if "probes" in req:
    rows = []
    for c in req["probes"]:
        cr = c["crystal"]
        sg, k = c["sg"], c["k"]
        n = NORMS[sg][k]
        T = np.array(n["transformation"], dtype=float)
        P = np.array(cr["scaled_positions"])
        nums = np.array(cr["numbers"])
        cell = np.array(cr["cell"])

        def letters_of(pos):
            ds = spglib.get_symmetry_dataset((cell, pos % 1.0, nums), symprec=1e-4)
            if ds is None:
                return None
            g = (lambda key: ds[key] if isinstance(ds, dict) else getattr(ds, key))
            ident = np.allclose(g("transformation_matrix"), np.eye(3), atol=1e-6) and np.allclose((np.array(g("origin_shift")) + 0.5) % 1.0 - 0.5, 0, atol=1e-6)
            return g("number"), list(g("wyckoffs")), bool(ident)
        a = letters_of(P)
        P2 = P @ T[:3, :3].T + T[:3, 3]
        b = letters_of(P2)
        row = {"id": c["id"], "sg": sg, "k": k}
        if a is None or b is None or a[0] != sg or b[0] != sg:
            row["status"] = "inconclusive-group"
            row["numbers"] = [None if a is None else a[0], None if b is None else b[0]]
        elif not (a[2] and b[2]):
            row["status"] = "inconclusive-origin"
        else:
            bad = []
            for i in range(len(nums)):
                want = n["permutations"].get(a[1][i])
                if want != b[1][i]:
                    bad.append([i, a[1][i], want, b[1][i]])
            row["status"] = "ok" if not bad else "mismatch"
            row["bad"] = bad[:5]
        rows.append(row)
    out["probes"] = rows

if req.get("use_then_dump"):
    after = entry_shas()
    out["tables_changed_by_use"] = sorted(k for k in ENTRIES_AT_IMPORT if after.get(k) != ENTRIES_AT_IMPORT[k])[:40]
    out["dump_sha_after_use"] = tables_sha()

print(json.dumps(out, default=__import__("_util").jdefault))