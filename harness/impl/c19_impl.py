"""Implementation side of C19: values of matid.geometry.get_radii and preset-vs-array consumers."""
import json, sys, math
import numpy as np
from ase import Atoms
import matid.geometry as G
import os
sys.path.insert(0, os.path.dirname(os.path.abspath(__file__)))
from _util import time_limit

req = json.load(sys.stdin)
out = {}
if "table" in req:
    zs = req["table"]["zs"]
    res = {}
    for p in req["table"]["presets"]:
        try:
            v = G.get_radii(p, np.array(zs))
            res[p] = [None if (isinstance(x, float) and math.isnan(x)) else float(x).hex() for x in v.tolist()]
        except Exception as e:  # e.g. IndexError beyond the vdw table
            # element-wise to find which entries exist
            vals = []
            for z in zs:
                try:
                    x = float(G.get_radii(p, np.array([z]))[0])
                    vals.append(None if math.isnan(x) else x.hex())
                except Exception as e2:
                    vals.append("ERR:" + type(e2).__name__)
            res[p] = vals
    out["table"] = res
if "orders" in req:
    # history dependence: evaluate the presets in every order inside this one interpreter, each time
    # for the full element range; the answers must not depend on what was asked before
    import itertools
    zs = req["orders"]["zs"]
    rows = []
    for order in itertools.permutations(req["orders"]["presets"]):
        for p in order:
            vals = []
            # a whole-range lookup first whose result the caller overwrites (a preset lookup returns a fresh array that
            # belongs to the caller): later answers must not change
            try:
                whole = G.get_radii(p, np.array(zs))
                whole[...] = 777.0
            except Exception:
                pass
            for z in zs:
                try:
                    r1 = G.get_radii(p, np.array([z]))
                    x = float(r1[0])
                    vals.append(None if math.isnan(x) else x.hex())
                    try:
                        r1[...] = -5.0
                    except Exception:
                        pass
                except Exception as e2:
                    vals.append("ERR:" + type(e2).__name__)
            rows.append({"order": list(order), "preset": p, "values": vals})
        # also through a consumer, which is how most callers reach get_radii
        try:
            at = Atoms(numbers=[8, 1, 1], positions=[[0, 0, 0], [0.96, 0, 0], [-0.24, 0.93, 0]], cell=[10, 10, 10], pbc=False)
            G.get_dimensionality(at, 0.65, radii=order[0])
        except Exception:
            pass
    out["orders"] = rows
if "vectors" in req:
    # multi-element lookups: the resolved per-atom array for whole structures
    rows = []
    for case in req["vectors"]:
        row = {"id": case["id"]}
        for p in case["presets"]:
            try:
                v = G.get_radii(p, np.array(case["numbers"]))
                row[p] = [None if math.isnan(float(x)) else float(x).hex() for x in np.asarray(v).tolist()]
            except Exception as e:
                row[p] = "ERR:" + type(e).__name__
        rows.append(row)
    out["vectors"] = rows
if "custom" in req:
    arr = np.array(req["custom"]["arr"], dtype=float)
    r = G.get_radii(arr, np.array(req["custom"]["nums"]))
    out["custom_same_object"] = bool(r is arr)
    out["custom_equal"] = bool(np.array_equal(r, arr))
    # custom per-atom arrays of many lengths (among them the lengths of the element tables), several species in an order
    # unrelated to the atomic numbers: returned unchanged, whatever the length
    import random as _random
    rr = _random.Random(req["custom"].get("seed", 0))
    bad = []
    lengths = sorted(set([1, 2, 3, 7, 50, 95, 96, 97, 102, 103, 104, 105, 117, 118, 119, 120, 121, 150, 200]
                         + [len(getattr(__import__("ase.data", fromlist=["x"]), nm)) for nm in ("covalent_radii", "atomic_numbers", "chemical_symbols")]
                         + [len(__import__("ase.data.vdw_alvarez", fromlist=["vdw_radii"]).vdw_radii)]))
    for n in lengths:
        nums = [rr.choice([1, 8, 55, 56, 29, 3]) for _ in range(n)]
        a = np.array([round(rr.uniform(0.2, 3.0), 4) for _ in range(n)])
        a0 = a.copy()
        try:
            got = G.get_radii(a, np.array(nums))
            if not (np.shape(got) == a0.shape and np.array_equal(got, a0) and np.array_equal(a, a0)):
                bad.append({"length": n, "numbers": nums[:12], "array": a0.tolist()[:12], "got": np.asarray(got).tolist()[:12]})
        except Exception as e:
            bad.append({"length": n, "error": type(e).__name__ + ": " + str(e)[:100]})
    out["custom_lengths"] = {"tried": lengths, "bad": bad[:5]}
def one_consumer(at, case, p):
    arr = G.get_radii(p, at.get_atomic_numbers())
    if np.isnan(arr).any():
        if p == "vdw":
            return {"skipped": "vdW radius undefined for an element (documented NaN)"}
        return {"error": "NaN radius from a preset that must be total"}
    d1 = G.get_dimensionality(at, case["thr"], radii=p, return_clusters=True)
    d2 = G.get_dimensionality(at, case["thr"], radii=np.array(arr), return_clusters=True)
    c1 = sorted(sorted(int(i) for i in c) for c in d1[1])
    c2 = sorted(sorted(int(i) for i in c) for c in d2[1])
    r = {"dim_preset": d1[0], "dim_array": d2[0], "clusters_equal": c1 == c2}
    if case.get("sbc"):
        from matid.clustering import SBC
        s1 = SBC().get_clusters(at, radii=p)
        s2 = SBC().get_clusters(at, radii=np.array(arr))
        k1 = sorted(sorted(int(i) for i in c.indices) for c in s1)
        k2 = sorted(sorted(int(i) for i in c.indices) for c in s2)
        r["sbc_equal"] = k1 == k2
        r["sbc_n"] = len(k1)
    return r


if "consumers" in req:
    rows = []
    for case in req["consumers"]:
        at = Atoms(numbers=case["numbers"], positions=case["positions"], cell=case["cell"], pbc=case["pbc"])
        row = {"id": case["id"]}
        for p in case["presets"]:
            try:
                with time_limit(150):
                    row[p] = one_consumer(at, case, p)
            except Exception as e:
                row[p] = {"error": type(e).__name__ + ": " + str(e)[:200]}
        rows.append(row)
    out["consumers"] = rows
print(json.dumps(out, default=__import__("_util").jdefault))