"""Implementation side of C02 and C03: runs the real SBC().get_clusters with default parameters on one family
member, with a logging wrapper around the real PeriodicFinder (every get_region call: seed, returned basis
indices, periodicity of the region's cell, search mask) and snapshots of the cluster lists between the
stages.  Returns raw observations only; the oracle contract F1 and the property's own conclusion are
evaluated by harness/props/c02.py / c03.py.

stdin : {"cases": [case, ...]}     stdout (last line): {"results": [...], "shim": mode}
case  : {"id", "key", "structure": {numbers, positions, cell, pbc}, "seed": int, "model": bool, "time_limit": s}
"""
import json
import os
import sys
import time

sys.path.insert(0, os.path.dirname(os.path.abspath(__file__)))
import sbc_common as S  # noqa: E402  (installs the ext shim before importing matid)
from _util import time_limit, CaseTimeout  # noqa: E402
import numpy as np  # noqa: E402

BOND_THRESHOLD = 0.65
MERGE_RADIUS = 1
MERGE_THRESHOLD = 0.5


def do_case(case):
    out = {"id": case["id"], "key": case.get("key")}
    t0 = time.time()
    rec = S.Recorder()
    try:
        with time_limit(case.get("time_limit", 300)):
            at = S.atoms_from(case["structure"])
            before = S.atoms_state(at)
            err = None
            clusters = None
            sbc = S.SBC()
            if case["id"] % 2 == 1:
                # history (no effect on what is expected): this SBC object has clustered THE SAME Atoms object before, while it
                # held the same structure in another atom order; the object was then restored in place
                import random as _random
                r_ = _random.Random(case["id"])
                pos0, num0 = at.get_positions().copy(), at.get_atomic_numbers().copy()
                order = list(range(len(at)))
                r_.shuffle(order)
                at.set_positions(pos0[order])
                at.set_atomic_numbers(num0[order])
                try:
                    with time_limit(case.get("time_limit", 300)):
                        sbc.get_clusters(at, seed=int(case.get("seed", 7)))
                except CaseTimeout:
                    raise
                except Exception:
                    pass
                at.set_positions(pos0)
                at.set_atomic_numbers(num0)
                out["history"] = "same SBC object, same Atoms object in another atom order first, restored in place"
                before = S.atoms_state(at)
            with S.patched_sbc(rec, S.make_logging_finder(rec)):
                try:
                    clusters = sbc.get_clusters(at, seed=int(case.get("seed", 7)))   # every other parameter: default
                except CaseTimeout:
                    raise
                except Exception as e:
                    import traceback
                    where = ""
                    for fr in traceback.extract_tb(e.__traceback__):
                        if "/matid/" in fr.filename:
                            where = "%s:%s" % (os.path.basename(fr.filename), fr.name)
                    err = {"type": type(e).__name__, "msg": str(e)[:300], "where": where}
            out["immutable"] = before == S.atoms_state(at)
            out["error"] = err
            out["n"] = len(at)
            out["calls"] = rec.calls
            if err is None:
                out["stages"] = rec.stages
                out["final"] = [[int(i) for i in c.indices] for c in clusters]
                dims = []
                numbers = at.get_atomic_numbers()
                radii = np.asarray(S.matid.geometry.get_radii("covalent", numbers), dtype=float)
                for c in clusters:
                    d1 = c.get_dimensionality()
                    d2 = c.get_dimensionality()
                    idx = list(c.indices)
                    try:
                        dd = S.matid.geometry.get_dimensionality(c.get_atoms(), BOND_THRESHOLD, radii=radii[idx])
                    except Exception as e:  # reported, never hidden
                        dd = "error:%s" % type(e).__name__
                    cell = c.get_cell()
                    dims.append({"shortcut": None if d1 is None else int(d1), "again": None if d2 is None else int(d2),
                                 "direct": dd if isinstance(dd, str) or dd is None else int(dd),
                                 "cell_pbc": None if cell is None else [bool(b) for b in cell.get_pbc()]})
                out["dims"] = dims
                D = np.array(rec.distances.dist_matrix_radii_mic, dtype=float)
                out["d_symmetric"] = bool((D == D.T).all())
                if case.get("model"):
                    out["near"] = S.neighbour_lists(D, MERGE_RADIUS, strict=True)
                    Dc = np.clip(D, 0, 1.1 * BOND_THRESHOLD)
                    out["bond"] = S.neighbour_lists(Dc, BOND_THRESHOLD, strict=False)
                    from fractions import Fraction
                    t = float(MERGE_THRESHOLD)
                    mid = (Fraction(t) + Fraction(float(np.nextafter(t, np.inf)))) / 2
                    out["merge_threshold_eff"] = [str(mid.numerator), str(mid.denominator)]
    except CaseTimeout:
        out["timeout"] = True
        out["calls_made"] = len(rec.calls)
    out["wall"] = round(time.time() - t0, 3)
    return out


def main():
    req = json.load(sys.stdin)
    res = [do_case(c) for c in req["cases"]]
    print(json.dumps({"results": res, "shim": S.SHIM_MODE}, default=__import__("_util").jdefault))
if __name__ == "__main__":
    main()
