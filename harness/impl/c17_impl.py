"""Implementation side of C17 (and of the C18 conformance run).

stdin : {"cases": [case, ...]}
        case = {"id", "numbers", "positions", "cell", "pbc", "cfg": {Classifier kwargs},
                "script": None | [answer, ...],              # scripted finder (answers in order of first use)
                "extra_arrays": bool}                          # attach tags/momenta/info to the Atoms (deep-equality probe)
        answer = None | {"units": [[int|None, ...], ...], "graph": [[[a,b,c], ...], ...], "is_2d": bool, "cell": bool}
stdout: {"rows": [row, ...], "ext": "shipped"|"shim"}

Per case the public `Classifier(**cfg).classify(atoms)` is called twice on one object and once on a
fresh object, with `matid.classification.classifier.PeriodicFinder` replaced from here by either
  * a stub that returns real LinkedUnitCollection objects built from the script, or
  * a wrapper around the real PeriodicFinder that logs every get_region call and what it returned.
Independently of the classifier the runner computes, with public functions only, the dimensionality
of the wrapped copy, the argsort of the distances to the centre of mass and the scaled tolerances.
"""
import contextlib
import io
import json
import os
import sys
import copy

sys.path.insert(0, os.path.dirname(os.path.abspath(__file__)))
sys.path.insert(0, os.path.dirname(os.path.dirname(os.path.abspath(__file__))))
from _util import time_limit  # noqa: E402
from lib import extshim  # noqa: E402

EXT_MODE = extshim.install()

import numpy as np  # noqa: E402
from ase import Atoms  # noqa: E402
import matid.geometry as G  # noqa: E402
import matid.classification.classifier as CL  # noqa: E402
from matid.core.linkedunits import LinkedUnitCollection, LinkedUnit, Substitution  # noqa: E402

RealFinder = CL.PeriodicFinder
LOG = []          # get_region calls of the current classify call
KEYED = {}        # scripted finder: (seed, size, tol) -> index into the script, assigned at first use
SCRIPT = None
F0_BAD = []


def fhex(x):
    return float(x).hex()


def summarize(region):
    if region is None:
        return None
    units = [[None if x is None else int(x) for x in u.basis_indices] for u in region.values()]
    g = region._search_graph
    graph = []
    for node in g.nodes():
        seen = []
        for e in g.in_edges(node, data=True):
            m = tuple(int(v) for v in np.asarray(e[2]["multiplier"]).tolist())
            if m not in seen:
                seen.append(m)
        if seen:
            graph.append([list(m) for m in seen])
    return {"units": units, "graph": graph, "is_2d": bool(region.is_2d), "cell": region.cell is not None,
            "n_cell": (len(region.cell) if region.cell is not None else None)}


def build_region(ans, system, seed_index):
    cell = Atoms("H", positions=[[0, 0, 0]], cell=np.eye(3)) if ans["cell"] else None
    coll = LinkedUnitCollection(system, cell, bool(ans["is_2d"]))
    nums = system.get_atomic_numbers()
    for j, u in enumerate(ans["units"]):
        sub = [Substitution(int(i), None, 0, int(nums[i])) for i in (ans.get("subs") or [[]] * len(ans["units"]))[j]]
        if sub and j % 2:
            sub.insert(0, None)
        coll[(j, 0, 0)] = LinkedUnit((j, 0, 0), seed_index, None, None, list(u), sub, [])
    g = coll._search_graph
    nn = len(ans["graph"])
    for j in range(nn):
        g.add_node((j, 0, 0), index=0)
    for j, edges in enumerate(ans["graph"]):
        for m in edges:
            g.add_edge(((j + 1) % nn, 0, 0), (j, 0, 0), multiplier=np.array(m))
    return coll


class StubFinder:
    def __init__(self, *a, **k):
        pass

    def get_region(self, system, seed_index, max_cell_size, pos_tol, bond_threshold=None,
                   overlap_threshold=-0.6, distances=None, return_mask=False):
        key = (int(seed_index), fhex(max_cell_size), fhex(pos_tol))
        if key not in KEYED:
            KEYED[key] = len(KEYED)
        k = KEYED[key]
        ans = SCRIPT[k] if k < len(SCRIPT) else None
        region = build_region(ans, system, seed_index) if ans is not None else None
        if region is not None:
            region._verif_rid = len(LOG)
        LOG.append({"seed": int(seed_index), "size": fhex(max_cell_size), "tol": fhex(pos_tol),
                    "answer": summarize(region)})
        return region


class LoggingFinder:
    def __init__(self, *a, **k):
        self._f = RealFinder(*a, **k)

    def get_region(self, system, seed_index, max_cell_size, pos_tol, bond_threshold=None,
                   overlap_threshold=-0.6, distances=None, return_mask=False):
        region = self._f.get_region(system, seed_index, max_cell_size, pos_tol, bond_threshold,
                                    overlap_threshold=overlap_threshold, distances=distances,
                                    return_mask=return_mask)
        if region is not None:
            region._verif_rid = len(LOG)
            n = len(system)
            idx = region.get_basis_indices()
            if region.cell is None or any((not isinstance(i, (int, np.integer))) or i < 0 or i >= n for i in idx):
                F0_BAD.append(len(LOG))
        LOG.append({"seed": int(seed_index), "size": fhex(max_cell_size), "tol": fhex(pos_tol),
                    "answer": summarize(region)})
        return region


def snapshot(at):
    return {"pos": at.get_positions().copy(), "num": at.get_atomic_numbers().copy(), "cell": np.array(at.get_cell()),
            "pbc": at.get_pbc().copy(), "arrays": {k: np.array(v) for k, v in at.arrays.items()},
            "info": copy.deepcopy(at.info), "ncons": len(at.constraints)}


def same(a, b):
    if not (np.array_equal(a["pos"], b["pos"]) and np.array_equal(a["num"], b["num"]) and np.array_equal(a["cell"], b["cell"])
            and np.array_equal(a["pbc"], b["pbc"]) and a["ncons"] == b["ncons"] and a["info"] == b["info"]):
        return False
    if set(a["arrays"]) != set(b["arrays"]):
        return False
    return all(np.array_equal(a["arrays"][k], b["arrays"][k]) for k in a["arrays"])


def observe(clf, atoms):
    del LOG[:]
    obs = {}
    try:
        c = clf.classify(atoms)
    except TypeError as e:
        obs = {"kind": 2, "exc": "TypeError: " + str(e)[:200]}
    except Exception as e:  # noqa
        obs = {"kind": 3, "exc": type(e).__name__ + ": " + str(e)[:200]}
    else:
        if c is None:
            obs = {"kind": 1}
        else:
            obs = {"kind": 0, "cls": type(c).__name__, "atoms_is_input": c.atoms is atoms,
                   "has_region": hasattr(c, "region")}
            if obs["has_region"]:
                obs["rid"] = int(getattr(c.region, "_verif_rid", -1))
                b1 = c.basis_indices
                obs["basis"] = sorted(int(i) for i in b1)
                obs["basis_raw_len"] = len(list(b1))
                o1 = c.outliers
                obs["outliers"] = sorted(int(i) for i in o1)
                obs["outliers_raw_len"] = len(list(o1))
                obs["cell"] = c.prototype_cell is not None
    obs["calls"] = list(LOG)
    return obs


def independent(atoms, cfg):
    """dimensionality of the wrapped copy, argsort of the distances to the centre of mass and scaled
    tolerances, computed here with public functions (not through the Classifier)."""
    out = {}
    w = atoms.copy()
    w.wrap()
    out["wrap_moved"] = not np.array_equal(w.get_positions(), atoms.get_positions())
    thr = cfg.get("cluster_threshold", 3.5)
    try:
        d = G.get_dimensionality(w, thr)
        out["dim"] = None if d is None else int(d)
    except Exception as e:  # noqa
        out["dim"] = "ERR:" + type(e).__name__ + ": " + str(e)[:100]
    # the same number from first principles, without matid (brute-force image sums, integer rank of the cycle voltages)
    try:
        from lib import dim_oracle
        from ase.data import covalent_radii
        out["dim_oracle"] = dim_oracle.dimensionality(w.get_positions(), np.array(w.get_cell()), w.get_pbc(),
                                                      [float(covalent_radii[z]) for z in w.get_atomic_numbers()], thr)
    except Exception as e:  # noqa
        out["dim_oracle"] = {"dim": None, "decided": False, "why": "oracle raised " + type(e).__name__ + ": " + str(e)[:100], "rank2": None}
    try:
        dist = G.get_distances(w)
        min_basis = np.linalg.norm(w.get_cell(), axis=1).min()
        dm = np.array(dist.dist_matrix_mic)
        np.fill_diagonal(dm, min_basis)
        gmd = dm.min()
        out["gmd"] = fhex(gmd)
        pt = cfg.get("pos_tol", None)
        mode = cfg.get("pos_tol_mode", "relative")
        if mode == "relative" and pt is None:
            pt = [0.25, 0.75]
        if isinstance(pt, (int, float)):
            pt = [pt]
        out["pos_tol"] = None if pt is None else [fhex(x) for x in pt]
        out["scaled"] = None if pt is None else [fhex(x) for x in (np.array(pt) * gmd).tolist()]
        cm = G.get_center_of_mass(w.copy())
        dd = np.linalg.norm(w.get_positions() - cm, axis=1)
        out["order"] = [int(i) for i in np.argsort(dd)]
    except Exception as e:  # noqa
        out["order_error"] = type(e).__name__ + ": " + str(e)[:100]
    return out


def run_case(case):
    global SCRIPT
    atoms = Atoms(numbers=case["numbers"], positions=case["positions"], cell=case["cell"], pbc=case["pbc"])
    if case.get("extra_arrays"):
        atoms.set_tags(list(range(len(atoms))))
        atoms.set_initial_magnetic_moments([0.5] * len(atoms))
        atoms.info["verif"] = {"k": [1, 2, 3]}
    cfg = dict(case.get("cfg") or {})
    row = {"id": case["id"], "n": len(atoms)}
    row.update(independent(atoms, cfg))
    SCRIPT = case.get("script")
    KEYED.clear()
    del F0_BAD[:]
    CL.PeriodicFinder = StubFinder if SCRIPT is not None else LoggingFinder
    before = snapshot(atoms)
    try:
        clf = CL.Classifier(**cfg)
    except Exception as e:  # noqa
        row["ctor_error"] = type(e).__name__ + ": " + str(e)[:200]
        return row
    if case.get("prior"):
        # history: this Classifier object classifies another structure first (real finder, not logged, never the script)
        pr = case["prior"]
        CL.PeriodicFinder = RealFinder
        try:
            with contextlib.redirect_stdout(io.StringIO()):
                clf.classify(Atoms(numbers=pr["numbers"], positions=pr["positions"], cell=pr["cell"], pbc=pr["pbc"]))
            row["prior"] = "ok"
        except Exception as e:  # noqa
            row["prior"] = type(e).__name__
        CL.PeriodicFinder = StubFinder if SCRIPT is not None else LoggingFinder
        KEYED.clear()
        del F0_BAD[:]
        del LOG[:]
    row["obs1"] = observe(clf, atoms)
    row["input_equal_1"] = same(before, snapshot(atoms))
    row["f0_bad_calls"] = list(F0_BAD)
    if case.get("single_call"):
        # C18 conformance runs: one classify call per case (repeatability is C17's business)
        row["obs2"] = dict(row["obs1"])
        row["single_call"] = True
        fresh = row["obs1"]
    else:
        row["obs2"] = observe(clf, atoms)
        fresh = observe(CL.Classifier(**cfg), atoms)
    row["fresh"] = {"kind": fresh["kind"], "cls": fresh.get("cls"), "basis": fresh.get("basis"), "exc": fresh.get("exc")}
    row["input_equal"] = same(before, snapshot(atoms))
    return row


def main():
    req = json.load(sys.stdin)
    if req.get("facts"):
        # behavioural probe of the one fact the model is parametrised by (see props/c17.py observed_facts)
        from ase.build import molecule
        clf = CL.Classifier(pos_tol_mode="absolute", delaunay_threshold_mode="absolute", pos_tol=0.4)
        try:
            with contextlib.redirect_stdout(io.StringIO()):
                clf.classify(molecule("H2O"))
        except Exception:  # noqa
            pass
        print(json.dumps({"facts": {"abs_pos_tol_set_when_both_absolute": getattr(clf, "abs_pos_tol", None) is not None}}))
        return
    rows = []
    for case in req["cases"]:
        try:
            with time_limit(case.get("time_limit", 120)):
                rows.append(run_case(case))
        except Exception as e:  # noqa  (CaseTimeout included)
            rows.append({"id": case["id"], "runner_error": type(e).__name__ + ": " + str(e)[:300]})
        finally:
            CL.PeriodicFinder = RealFinder
    print(json.dumps({"rows": rows, "ext": EXT_MODE}, default=__import__("_util").jdefault))
if __name__ == "__main__":
    main()
