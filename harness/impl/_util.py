"""helpers shared by implementation-side runners"""
import signal
import contextlib


class CaseTimeout(Exception):
    pass


@contextlib.contextmanager
def time_limit(seconds):
    def handler(signum, frame):
        raise CaseTimeout("case exceeded %ds" % seconds)
    old = signal.signal(signal.SIGALRM, handler)
    signal.alarm(int(seconds))
    try:
        yield
    finally:
        signal.alarm(0)
        signal.signal(signal.SIGALRM, old)


def jdefault(o):
    """json.dumps(default=...): a changed implementation may hand back numpy scalars / arrays / sets where
    the pinned one returned plain Python values; the runner must report that as data, not crash."""
    try:
        import numpy as np
        if isinstance(o, np.bool_):
            return bool(o)
        if isinstance(o, np.integer):
            return int(o)
        if isinstance(o, np.floating):
            return float(o)
        if isinstance(o, np.ndarray):
            return o.tolist()
    except ImportError:
        pass
    if isinstance(o, (set, frozenset)):
        return sorted(o, key=repr)
    return repr(o)
