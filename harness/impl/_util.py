"""helpers shared by implementation-side runners"""
import signal
import contextlib


class CaseTimeout(Exception):
    pass


@contextlib.contextmanager
def time_limit(seconds):
    def handler(signum, frame):
        raise CaseTimeout("case exceeded %ds" % seconds)
    old = signal.signal(signal.SIGALRM, handler)
    signal.alarm(int(seconds))
    try:
        yield
    finally:
        signal.alarm(0)
        signal.signal(signal.SIGALRM, old)


def jdefault(o):
    """json.dumps(default=...): a changed implementation may hand back numpy scalars / arrays / sets where
    the pinned one returned plain Python values; the runner must report that as data, not crash."""
    try:
        import numpy as np
        if isinstance(o, np.bool_):
            return bool(o)
        if isinstance(o, np.integer):
            return int(o)
        if isinstance(o, np.floating):
            return float(o)
        if isinstance(o, np.ndarray):
            return o.tolist()
    except ImportError:
        pass
    if isinstance(o, (set, frozenset)):
        return sorted(o, key=repr)
    return repr(o)


def call_getters(obj, seed=None, names=None, skip=()):
    """History stream "order of public calls": call a pseudo-random, non-empty selection of the object's public
    argument-less get_* methods in a pseudo-random order (both a pure function of `seed`), or exactly `names`
    (replay).  A getter that raises is recorded as "name!Error" and does not stop the sequence.  Returns the list of
    names in the order called.  The examined call is made AFTERWARDS on the same object and must answer as it does on
    a fresh object -- every property here is a statement about a function of the input structure."""
    if names is None:
        names = plan_getters(obj, seed, skip)
    called = []
    for n in names:
        n = n.split("!")[0]
        try:
            getattr(obj, n)()
            called.append(n)
        except Exception as e:  # noqa
            called.append(n + "!" + type(e).__name__)
    return called


def plan_getters(obj, seed, skip=()):
    """the selection call_getters(obj, seed) makes (names in calling order); obj = instance or class"""
    import inspect
    import random
    cls = obj if isinstance(obj, type) else type(obj)
    cand = []
    for n in sorted(dir(cls)):
        if not n.startswith("get_") or n in skip:
            continue
        f = getattr(cls, n, None)
        if not callable(f):
            continue
        try:
            sig = inspect.signature(f)
        except (TypeError, ValueError):
            continue
        need = [p for p in list(sig.parameters.values())[1:]
                if p.default is p.empty and p.kind in (p.POSITIONAL_ONLY, p.POSITIONAL_OR_KEYWORD, p.KEYWORD_ONLY)]
        if need:
            continue
        cand.append(n)
    rng = random.Random(seed)
    rng.shuffle(cand)
    return cand[:rng.randint(1, len(cand))] if cand else []
