"""helpers shared by implementation-side runners"""
import signal
import contextlib


class CaseTimeout(Exception):
    pass


@contextlib.contextmanager
def time_limit(seconds):
    def handler(signum, frame):
        raise CaseTimeout("case exceeded %ds" % seconds)
    old = signal.signal(signal.SIGALRM, handler)
    signal.alarm(int(seconds))
    try:
        yield
    finally:
        signal.alarm(0)
        signal.signal(signal.SIGALRM, old)
