"""Implementation side of C04: the README workflow on one family member.

    clusters = SBC().get_clusters(system)            (default parameters; seed from the case)
    cell     = clusters[0].get_cell()
    SymmetryAnalyzer(cell, symmetry_tol=tol)  ->  material id, space group number, Wyckoff sets

and the same analysis of the source crystal's own unit cell at the same tolerance.  The real PeriodicFinder
is wrapped by a logging subclass (module-level monkey-patching, no source hooks) that records which
prototype-cell builder ran (`_find_proto_cell_3d` / `_find_proto_cell_2d`), the pbc of what it built and the
pbc / number of spans `_find_proto_cell` finally returned -- these are the observations the Coq model
`ProtoCell.proto_pbc` is compared with.  A second mode ("dispatch") calls `Cluster.get_cell` on the nine
combinations of (cell, region) in {None, falsy object, truthy object} for the model of its dispatch.

Raw observations only; the property's predicate is evaluated by harness/props/c04.py.

stdin : {"cases": [case, ...]} | {"dispatch": true}      stdout (last line): {"results": [...], "shim": mode}
case  : {"id", "key", "structure": {numbers, positions, cell, pbc}, "reference": {...same...}, "seed": int,
         "tol": float, "time_limit": s}
"""
import json
import os
import sys
import time

sys.path.insert(0, os.path.dirname(os.path.abspath(__file__)))
sys.path.insert(0, os.path.dirname(os.path.dirname(os.path.abspath(__file__))))
from lib import extshim  # noqa: E402

SHIM_MODE = extshim.install()

from _util import time_limit, CaseTimeout  # noqa: E402
import numpy as np  # noqa: E402
from ase import Atoms  # noqa: E402
import matid.clustering.sbc as sbcmod  # noqa: E402
from matid.clustering import SBC  # noqa: E402
from matid.clustering.cluster import Cluster  # noqa: E402
from matid.core.linkedunits import LinkedUnitCollection  # noqa: E402
from matid.core.periodicfinder import PeriodicFinder as RealFinder  # noqa: E402
from matid.symmetry.symmetryanalyzer import SymmetryAnalyzer  # noqa: E402


def atoms_from(d):
    return Atoms(numbers=d["numbers"], positions=d["positions"], cell=d["cell"], pbc=d["pbc"])


def atoms_to(at):
    return {"numbers": [int(z) for z in at.get_atomic_numbers()],
            "positions": [[float(x) for x in p] for p in at.get_positions()],
            "cell": [[float(x) for x in r] for r in np.array(at.get_cell())],
            "pbc": [bool(b) for b in at.get_pbc()]}


def make_finder(log):
    class LoggingFinder(RealFinder):
        def _find_proto_cell_3d(self, *a, **k):
            out = RealFinder._find_proto_cell_3d(self, *a, **k)
            log["cur"]["builder"] = "3d"
            log["cur"]["built_pbc"] = None if out[0] is None else [bool(b) for b in out[0].get_pbc()]
            return out

        def _find_proto_cell_2d(self, *a, **k):
            out = RealFinder._find_proto_cell_2d(self, *a, **k)
            log["cur"]["builder"] = "2d"
            log["cur"]["built_pbc"] = None if out[0] is None else [bool(b) for b in out[0].get_pbc()]
            return out

        def _find_proto_cell(self, *a, **k):
            log["cur"] = {"builder": None, "built_pbc": None}
            out = RealFinder._find_proto_cell(self, *a, **k)
            cell, offset, dim, nsel = out
            log["cur"]["final_pbc"] = None if cell is None else [bool(b) for b in cell.get_pbc()]
            log["cur"]["dim"] = None if dim is None else int(dim)
            log["cur"]["n_cell"] = None if cell is None else len(cell)
            return out

        def get_region(self, system, seed_index, *a, **k):
            log["cur"] = None
            out = RealFinder.get_region(self, system, seed_index, *a, **k)
            reg = out[0] if isinstance(out, tuple) else out
            ent = dict(log["cur"] or {})
            ent["seed"] = int(seed_index)
            ent["region"] = reg is not None
            if reg is not None:
                ent["region_id"] = id(reg)
                ent["region_cell_pbc"] = [bool(b) for b in reg.cell.get_pbc()]
                ent["region_is_2d"] = bool(reg.is_2d)
                ent["n_basis"] = len(reg.get_basis_indices())
                log["keep"].append(reg)
            log["calls"].append(ent)
            return out

    return LoggingFinder


def analyse(at, tol):
    """what the property compares: material id, space group number, (letter, element, multiplicity) multiset"""
    a = SymmetryAnalyzer(at, symmetry_tol=tol)
    out = {"number": int(a.get_space_group_number()), "material_id": a.get_material_id(), "n_pbc": int(a.n_pbc)}
    sets = a.get_wyckoff_sets_conventional(return_parameters=False)
    out["wyckoff"] = sorted([s.wyckoff_letter, s.element, int(s.multiplicity)] for s in sets)
    out["set_sizes"] = sorted([s.wyckoff_letter, s.element, len(s.indices)] for s in sets)
    conv = a.get_conventional_system()
    out["n_conv"] = len(conv)
    # the data the conditional theorem consumes: spglib's letters / species of the standardized cell
    out["spglib_letters_conv"] = [str(x) for x in a._get_spglib_wyckoff_letters_conventional()]
    ds = a.get_symmetry_dataset()
    std_types = ds["std_types"] if isinstance(ds, dict) else ds.std_types
    out["std_types"] = [int(x) for x in std_types]
    out["conv_letters"] = [None if x is None else str(x) for x in a.get_wyckoff_letters_conventional()]
    out["conv_numbers"] = [int(z) for z in conv.get_atomic_numbers()]
    return out


def guarded(fn, *a):
    try:
        return fn(*a)
    except CaseTimeout:
        raise
    except Exception as e:
        import traceback
        where = ""
        for fr in traceback.extract_tb(e.__traceback__):
            if "/matid/" in fr.filename:
                where = "%s:%s:%d" % (os.path.basename(fr.filename), fr.name, fr.lineno)
        return {"error": {"type": type(e).__name__, "msg": str(e)[:300], "where": where}}


def do_case(case):
    out = {"id": case["id"], "key": case.get("key")}
    t0 = time.time()
    log = {"calls": [], "keep": [], "cur": None}
    try:
        with time_limit(case.get("time_limit", 300)):
            at = atoms_from(case["structure"])
            tol = float(case["tol"])
            saved = sbcmod.PeriodicFinder
            sbcmod.PeriodicFinder = make_finder(log)
            try:
                sbc = SBC()
                if case["id"] % 2 == 1:
                    # history: the SBC object of the workflow has clustered ANOTHER structure in the same box before
                    # (same atoms translated and in another order); the answer for `at` must not depend on it
                    import random as _random
                    r_ = _random.Random(case["id"])
                    order = list(range(len(at)))
                    r_.shuffle(order)
                    oth = at[order]
                    oth.set_positions(oth.get_positions() + np.array([r_.uniform(0.4, 1.9) for _ in range(3)]))
                    guarded(lambda: sbc.get_clusters(oth, seed=int(case.get("seed", 7))))
                    log["calls"][:] = []
                    log["keep"][:] = []
                    log["cur"] = None
                    out["history"] = "same SBC object clustered a translated, re-ordered copy first"
                res = guarded(lambda: sbc.get_clusters(at, seed=int(case.get("seed", 7))))
                if "history" in out:
                    keep = (list(log["calls"]), list(log["keep"]), log["cur"])
                    fresh = guarded(lambda: SBC().get_clusters(at, seed=int(case.get("seed", 7))))
                    log["calls"][:], log["keep"][:], log["cur"] = keep[0], keep[1], keep[2]

                    def canon(x):
                        return ("error", x["error"]["type"]) if isinstance(x, dict) else sorted(sorted(int(i) for i in c.indices) for c in x)
                    out["history_same"] = bool(canon(res) == canon(fresh))
                    if not out["history_same"]:
                        out["history_detail"] = {"reused": str(canon(res))[:300], "fresh": str(canon(fresh))[:300]}
            finally:
                sbcmod.PeriodicFinder = saved
            out["n"] = len(at)
            out["calls"] = [{k: v for k, v in c.items() if k != "region_id"} for c in log["calls"]]
            out["reference"] = guarded(analyse, atoms_from(case["reference"]), tol)
            if isinstance(res, dict):
                out["sbc_error"] = res["error"]
            else:
                clusters = res
                out["cluster_sizes"] = [len(c.indices) for c in clusters]
                obs = []
                for c in clusters[:3]:
                    cell = c.get_cell()
                    o = {"n_indices": len(c.indices), "cell_attr_is_none": c._cell is None, "has_region": c._region is not None,
                         "region_truthy": bool(c._region) if c._region is not None else None,
                         "get_cell_is_region_cell": (c._region is not None and cell is c._region.cell),
                         "cell": None if cell is None else atoms_to(cell),
                         "dimensionality": guarded(lambda: c.get_dimensionality())}
                    if c._region is not None:
                        for ent in log["calls"]:
                            if ent.get("region_id") == id(c._region):
                                o["call"] = {k: v for k, v in ent.items() if k != "region_id"}
                    if cell is not None:
                        o["analysis"] = guarded(analyse, cell, tol)
                        # the workflow must not depend on a second call returning another object
                        o["get_cell_stable"] = c.get_cell() is cell
                    obs.append(o)
                out["clusters"] = obs
    except CaseTimeout:
        out["timeout"] = True
    out["wall"] = round(time.time() - t0, 3)
    return out


def dispatch_table():
    """Cluster.get_cell on {None, falsy, truthy}^2 -- observations for the model ProtoCell.get_cell"""
    sysm = Atoms(numbers=[1], positions=[[0, 0, 0]], cell=[3, 3, 3], pbc=True)
    cells = {"none": None, "falsy": Atoms(cell=[3, 3, 3], pbc=True), "truthy": Atoms(numbers=[6], positions=[[0, 0, 0]], cell=[2, 2, 2], pbc=True)}
    rcell = Atoms(numbers=[7], positions=[[0, 0, 0]], cell=[4, 4, 4], pbc=[True, True, False])
    empty = LinkedUnitCollection(sysm, rcell, True)
    full = LinkedUnitCollection(sysm, rcell, True)
    dict.__setitem__(full, (0, 0, 0), object())
    regions = {"none": None, "falsy": empty, "truthy": full}
    rows = []
    for cn, cv in cells.items():
        for rn, rv in regions.items():
            cl = Cluster(indices=[0], species={1}, region=rv, cell=cv, system=sysm)
            got = cl.get_cell()
            if got is None:
                res = "none"
            elif got is cv:
                res = "cell"
            elif rv is not None and got is rv.cell:
                res = "region_cell"
            else:
                res = "other"
            rows.append({"cell": cn, "region": rn, "result": res,
                         "cell_truthy": None if cv is None else bool(cv), "region_truthy": None if rv is None else bool(rv)})
    return rows


def main():
    req = json.load(sys.stdin)
    if req.get("dispatch"):
        print(json.dumps({"results": guarded(dispatch_table), "shim": SHIM_MODE}, default=__import__("_util").jdefault))
        return
    res = [do_case(c) for c in req["cases"]]
    print(json.dumps({"results": res, "shim": SHIM_MODE}, default=__import__("_util").jdefault))
if __name__ == "__main__":
    main()
