"""Implementation side of C08: free Wyckoff parameters through the public API.

request  {"cases": [{"id", "crystal": {cell, scaled_positions, numbers[, pbc]}, "tol", "direct": "auto"|"always"|false, "target": letter}]}
reply    {"cases": [row]}  with row =
  id, number (space group), cell / positions (hex floats) / letters / equivalent_atoms of the system the
  solver sees (conventional system after the normalizer search), status "ok" | "ValueError" | "error:<type>",
  message, sets [{letter, element, atomic_number, indices, x, y, z (hex or None), representative,
  multiplicity}], flag (get_has_free_wyckoff_parameters), letters_original.
  With "direct": the same through the anchored method _get_wyckoff_sets on spglib's own conventional
  system, letters and equivalence classes (before the normalizer search), under key "direct".
  With "doctor": {"mode": "odd"|"half", "target": letter}: the same anchored call with one equivalence class split
  in two (a set that is NOT an orbit), under key "doctored" -- exercises the strength of the candidate test.
"""
import json
import os
import sys

import numpy as np

sys.path.insert(0, os.path.dirname(os.path.abspath(__file__)))
from _util import time_limit, call_getters  # noqa

req = json.load(sys.stdin)
from lib import extshim  # noqa
mode = extshim.install()
from ase import Atoms  # noqa
from matid.symmetry.symmetryanalyzer import SymmetryAnalyzer  # noqa


def hx(v):
    return None if v is None else float(v).hex()


def sets_out(sets):
    res = []
    for s in sets:
        res.append({"letter": str(s.wyckoff_letter), "element": str(s.element), "atomic_number": int(s.atomic_number),
                    "indices": [int(i) for i in s.indices], "x": hx(s.x), "y": hx(s.y), "z": hx(s.z),
                    "representative": [str(e) for e in s.representative], "multiplicity": int(s.multiplicity),
                    "space_group": int(s.space_group)})
    return res


def system_out(system, letters, equiv):
    return {"cell": [[hx(v) for v in row] for row in np.array(system.get_cell())],
            "positions": [[hx(v) for v in row] for row in system.get_scaled_positions()],
            "pbc": [bool(b) for b in system.get_pbc()],
            "numbers": [int(z) for z in system.get_atomic_numbers()],
            "letters": [str(l) for l in letters], "equivalent_atoms": [int(e) for e in equiv]}


def solve(fn):
    try:
        sets = fn()
        return {"status": "ok", "sets": sets_out(sets)}
    except ValueError as e:
        return {"status": "ValueError", "message": str(e)[:400], "sets": []}
    except Exception as e:  # noqa
        return {"status": "error:" + type(e).__name__, "message": str(e)[:400], "sets": []}


SHARED = {}
PREV = {}


def collect(an):
    out = solve(lambda: an.get_wyckoff_sets_conventional(return_parameters=True))
    return {"status": out["status"], "sets": out["sets"], "flag": bool(an.get_has_free_wyckoff_parameters()),
            "number": int(an.get_space_group_number())}


def reuse(at, tol, cr, row, prior=None):
    """ONE analyzer per tolerance is handed every crystal of this process through set_system() (after the flag, the sets
    and the parameters of the previous crystal were asked); it must answer as the fresh analyzer did.  `prior`: replay of a
    recorded sequence -- the shared analyzer is first created on that crystal."""
    key = tol
    try:
        if prior is not None:
            pa = Atoms(numbers=prior["numbers"], cell=prior["cell"], scaled_positions=prior["scaled_positions"], pbc=prior.get("pbc", True))
            SHARED[key] = SymmetryAnalyzer(pa, symmetry_tol=tol) if tol is not None else SymmetryAnalyzer(pa)
            collect(SHARED[key])
            PREV[key] = prior
        sh = SHARED.get(key)
        if sh is None:
            sh = SHARED[key] = SymmetryAnalyzer(at.copy(), symmetry_tol=tol) if tol is not None else SymmetryAnalyzer(at.copy())
        else:
            sh.set_system(at.copy())
        got = collect(sh)
        want = {k: row.get(k) for k in ("status", "sets", "flag", "number")}
        diff = [k for k in want if got[k] != want[k]]
        res = {"same": not diff, "differs_in": diff, "previous_crystal": PREV.get(key) if diff else None,
               "reused": {k: got[k] for k in diff if k != "sets"}, "fresh": {k: want[k] for k in diff if k != "sets"}}
    except Exception as e:  # noqa
        res = {"same": False, "differs_in": ["raised " + type(e).__name__ + ": " + str(e)[:150]], "previous_crystal": PREV.get(key)}
    PREV[key] = cr
    return res


rows = []
for c in req.get("cases", []):
    cr = c["crystal"]
    row = {"id": c["id"]}
    try:
        with time_limit(c.get("time_limit", 180)):
            at = Atoms(numbers=cr["numbers"], cell=cr["cell"], scaled_positions=cr["scaled_positions"], pbc=cr.get("pbc", True))
            an = SymmetryAnalyzer(at, symmetry_tol=c["tol"]) if c.get("tol") is not None else SymmetryAnalyzer(at)
            row["tol"] = float(an.symmetry_tol).hex()
            row["number"] = int(an.get_space_group_number())
            conv = an.get_conventional_system()
            row.update(system_out(conv, an.get_wyckoff_letters_conventional(), an.get_equivalent_atoms_conventional()))
            # call history on the one analyzer object: the reported parameters and the flag must not depend on what
            # was asked before (id % 3: 0 = parameters first; 1 = id and parameter-less sets first; 2 = flag first,
            # parameters, parameter-less sets, parameters again -- the LAST answer is the one examined)
            hist = c["history"] if c.get("history") is not None else c["id"] % 4
            row["history"] = hist
            if hist == 3 or isinstance(hist, list):
                # order of public calls: a pseudo-random selection of the other public getters first (replay: the recorded list)
                row["history"] = hist = call_getters(an, seed=c["id"], names=hist if isinstance(hist, list) else None)
            if hist == 1:
                an.get_material_id()
                an.get_wyckoff_sets_conventional(return_parameters=False)
            elif hist == 2:
                flag_first = bool(an.get_has_free_wyckoff_parameters())
                try:
                    an.get_wyckoff_sets_conventional(return_parameters=True)
                    an.get_wyckoff_sets_conventional(return_parameters=False)
                except ValueError:
                    pass
            row.update(solve(lambda: an.get_wyckoff_sets_conventional(return_parameters=True)))
            row["flag"] = bool(an.get_has_free_wyckoff_parameters())
            if hist == 2 and flag_first != row["flag"]:
                row["flag_unstable"] = True
            row["letters_original"] = sorted(set(str(l) for l in an.get_wyckoff_letters_original()))
            row["reuse"] = reuse(at, c.get("tol"), cr, row, c.get("prior"))
            want = c.get("direct")
            if want == "auto":   # only when the normalizer search moved the target letter away (or the call failed)
                want = row["status"] != "ok" or (c.get("target") is not None and c["target"] not in row["letters"])
            if want:
                sys0 = an._get_spglib_conventional_system()
                l0 = an._get_spglib_wyckoff_letters_conventional()
                e0 = an._get_spglib_equivalent_atoms_conventional()
                d = system_out(sys0, l0, e0)
                d.update(solve(lambda: an._get_wyckoff_sets(sys0, row["number"], l0, e0, precision=an.symmetry_tol, return_parameters=True)))
                row["direct"] = d
            doc = c.get("doctor")
            if doc:
                # malformed stream: the anchored method on spglib's system with one equivalence class split in two
                sys0 = an._get_spglib_conventional_system()
                l0 = [str(l) for l in an._get_spglib_wyckoff_letters_conventional()]
                e0 = np.array(an._get_spglib_equivalent_atoms_conventional()).copy()
                classes = {}
                for i, e in enumerate(e0):
                    classes.setdefault(int(e), []).append(i)
                cand = [k for k in sorted(classes) if len(classes[k]) >= 2 and l0[classes[k][0]] == doc.get("target")] \
                    or [k for k in sorted(classes) if len(classes[k]) >= 2]
                if cand:
                    idx = classes[cand[0]]
                    moved = idx[1::2] if doc.get("mode") == "odd" else idx[len(idx) // 2:]
                    if doc.get("mode") == "centring":
                        # keep exactly the positions of the expressions WITHOUT the centring translations (at the
                        # parameters the undoctored call reports), move the centred copies to the new class
                        from matid.data.symmetry_data import WYCKOFF_SETS
                        ent = WYCKOFF_SETS[row["number"]][l0[idx[0]]]
                        try:
                            s0 = [w for w in an._get_wyckoff_sets(sys0, row["number"], np.array(l0), np.array(e0), precision=an.symmetry_tol, return_parameters=True)
                                  if list(w.indices) == idx][0]
                            W = np.array([v if v is not None else 0.0 for v in (s0.x, s0.y, s0.z)])
                            pts = (np.dot(W, np.array(ent["matrices"])) + np.array(ent["constants"])) % 1.0
                            P = sys0.get_scaled_positions()
                            keep = []
                            for i in idx:
                                dd = np.abs(pts - P[i])
                                dd = np.minimum(dd, 1.0 - dd)
                                if (dd.max(axis=1) < 1e-6).any():
                                    keep.append(i)
                            if 0 < len(keep) < len(idx):
                                moved = [i for i in idx if i not in keep]
                        except Exception:  # noqa
                            pass
                    newid = max(classes) + 1
                    for i in moved:
                        e0[i] = newid
                    d = system_out(sys0, l0, e0)
                    d.update(solve(lambda: an._get_wyckoff_sets(sys0, row["number"], np.array(l0), e0, precision=an.symmetry_tol, return_parameters=True)))
                    d["doctor"] = {"mode": doc.get("mode"), "class": int(cand[0]), "moved": [int(i) for i in moved]}
                    row["doctored"] = d
    except Exception as e:  # noqa
        row["status"] = "error:" + type(e).__name__
        row["message"] = str(e)[:400]
    rows.append(row)
print(json.dumps({"cases": rows, "ext_mode": mode}, default=__import__("_util").jdefault))