"""Implementation side of C09: matid.geometry.get_dimensionality(system, thr, radii=..., return_clusters=True)
on the structures sent by harness/props/c09.py.  stdin: {"cases": [...]}; stdout (last line): {"mode":..., "results": [...]}.
Floats travel as JSON numbers (repr round-trips binary64 exactly)."""
import json
import os
import sys

import resource

# keep every runner small: 2.5 GB of address space (resident size stays well below 1.5 GB); an
# allocation beyond that surfaces as MemoryError for the case at hand
_lim = int(float(os.environ.get("VERIF_C09_MEM_GB", "2.5")) * (1 << 30))
resource.setrlimit(resource.RLIMIT_AS, (_lim, _lim))
sys.path.insert(0, os.path.dirname(os.path.abspath(__file__)))
sys.path.insert(0, os.path.dirname(os.path.dirname(os.path.abspath(__file__))))
from _util import time_limit  # noqa: E402
from lib import extshim  # noqa: E402

mode = extshim.install()

import numpy as np  # noqa: E402
from ase import Atoms  # noqa: E402
import matid.geometry as G  # noqa: E402


def canon_labels(n, clusters):
    """label of an atom = smallest index in its cluster; also checks that the clusters partition range(n)"""
    lab = [None] * n
    for c in clusters:
        m = min(int(i) for i in c)
        for i in c:
            if lab[int(i)] is not None:
                return None
            lab[int(i)] = m
    if any(x is None for x in lab):
        return None
    return lab


def one(case):
    numbers = case["numbers"]
    at = Atoms(numbers=numbers, positions=case["positions"], cell=case["cell"], pbc=case["pbc"])
    radii = case["radii"]
    if not isinstance(radii, str):
        radii = np.array(radii, dtype=float)
    before = (at.get_positions().copy(), at.get_cell().array.copy(), at.get_pbc().copy(), at.get_atomic_numbers().copy())
    rad_before = None if isinstance(radii, str) else radii.copy()
    if case.get("twin", case["id"] % 4 == 1) and any(case["pbc"]):
        # process history: a TWIN structure first -- same edge lengths, pbc, radii, threshold and number of atoms, orthogonal cell
        try:
            cell0 = np.array(case["cell"], dtype=float)
            if abs(np.linalg.det(cell0)) > 1e-9:
                twin_cell = np.diag(np.linalg.norm(cell0, axis=1))
                sc = np.linalg.solve(cell0.T, np.array(case["positions"], dtype=float).T).T
                tw = Atoms(numbers=numbers, positions=sc @ twin_cell, cell=twin_cell, pbc=case["pbc"])
                G.get_dimensionality(tw, case["thr"], radii=radii)
        except Exception:
            pass
    if case["id"] % 4 == 0:
        # process history: the same structure is measured with other thresholds / radii / return flags first, the
        # returned cluster lists are overwritten by the caller, other entry points run on a copy
        try:
            for thr2, rad2 in ((case["thr"] * 0.5, radii), (case["thr"] * 2.0, "covalent"), (case["thr"], "vdw_covalent")):
                r2 = G.get_dimensionality(at.copy() if thr2 > 4 else at, thr2, radii=rad2, return_clusters=True)
                for c in r2[1]:
                    try:
                        c[:] = [0] * len(c)
                    except Exception:
                        pass
            G.get_dimensionality(at, case["thr"], radii=radii)
            G.get_distances(at.copy())
        except Exception:
            pass
    res = G.get_dimensionality(at, case["thr"], radii=radii, return_clusters=True)
    dim, clusters = res
    out = {"dim": None if dim is None else int(dim), "labels": canon_labels(len(numbers), clusters)}
    out["untouched"] = bool(np.array_equal(before[0], at.get_positions()) and np.array_equal(before[1], at.get_cell().array)
                            and np.array_equal(before[2], at.get_pbc()) and np.array_equal(before[3], at.get_atomic_numbers())
                            and (rad_before is None or np.array_equal(rad_before, radii)))
    if case.get("precomputed"):
        # the path used by Cluster.get_dimensionality: the radii-corrected 1x matrix is handed in
        r1 = G.get_radii(radii, at.get_atomic_numbers())
        cutoff = case["thr"] + 2 * r1.max()
        _, dm = G.get_displacement_tensor(at.get_positions(), at.get_cell(), at.get_pbc(), cutoff=cutoff, return_distances=True)
        dm = dm - (r1[:, None] + r1[None, :])
        d2 = G.get_dimensionality(at, case["thr"], dist_matrix_radii_mic_1x=dm, radii=radii)
        out["dim_precomputed"] = None if d2 is None else int(d2)
    return out


req = json.load(sys.stdin)
results = []
for case in req["cases"]:
    try:
        with time_limit(case.get("timeout", 60)):
            r = one(case)
    except Exception as e:  # canonical error enum: class name
        r = {"error": type(e).__name__ + ": " + str(e)[:200]}
    r["id"] = case["id"]
    results.append(r)
print(json.dumps({"mode": mode, "results": results}, default=__import__("_util").jdefault))