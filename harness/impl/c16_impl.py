"""Implementation side of C16: get_extended_system, get_cell_list(...).get_neighbours_for_position,
get_matches, get_matches_simple on grid inputs; bin geometry of the CellList through the shim build of
the current C++ sources.  stdin {"cases": [...]}, stdout JSON (doubles as hex strings)."""
import json, sys, os, math
sys.path.insert(0, os.path.dirname(os.path.abspath(__file__)))
sys.path.insert(0, os.path.join(os.path.dirname(os.path.abspath(__file__)), ".."))
from lib import extshim
mode = extshim.install()
import numpy as np
from ase import Atoms
import matid.geometry as MG
import matid.ext
from _util import time_limit

G = 4096.0
_shim = None


def shim():
    global _shim
    if _shim is None:
        _shim = extshim.load_shim()
    return _shim


def hexf(x):
    x = float(x)
    if math.isinf(x):
        return "inf" if x > 0 else "-inf"
    if math.isnan(x):
        return "nan"
    return x.hex()


def hv(v):
    return [hexf(x) for x in v]


def copies_used(pos, cell, pbc, ext):
    es = matid.ext.extend_system(pos, np.zeros(len(pos), dtype=np.int32), cell, np.array(pbc, dtype=bool), ext)
    f = np.asarray(es.factors)
    return [int(f[:, k].max()) for k in range(3)], int(len(f))


class Recorder:
    """stands in for the CellList handed to get_matches_simple: records the queried positions"""
    def __init__(self, cl):
        self.cl = cl
        self.queried = []

    def get_neighbours_for_position(self, x, y, z):
        self.queried.append([float(x), float(y), float(z)])
        return self.cl.get_neighbours_for_position(x, y, z)


def rows_of(res):
    out = []
    for k in range(len(res.indices)):
        out.append([int(res.indices[k]), int(res.indices_original[k]), hexf(res.distances[k]), hexf(res.distances_squared[k]),
                    hv(res.displacements[k]), hv(res.factors[k])])
    return out


def prior_calls(at, ext, cutoff, probes, c):
    """process history: the same structure is extended / binned / searched with OTHER extension, cutoff and
    tolerance values first (results discarded).  The measured calls below must not depend on it."""
    try:
        for e2 in (ext * 0.5, ext * 1.5):
            MG.get_extended_system(at, e2)
        for (e2, c2) in ((ext, cutoff * 0.5), (ext, cutoff * 1.75), (ext * 0.5, cutoff)):
            cl2 = MG.get_cell_list(at.get_positions(), at.get_cell(), at.get_pbc(), e2, c2)
            for q in probes[:2]:
                cl2.get_neighbours_for_position(float(q[0]), float(q[1]), float(q[2]))
            if c.get("tol") is not None and len(probes):
                MG.get_matches(at, cl2, probes, c["probe_nums"], c["tol"] / G * 0.5)
    except Exception as e:  # a failing prior call is reported as data, the measured call still runs
        return type(e).__name__ + ": " + str(e)[:200]
    return None


def run_case(c):
    pos = np.array(c["pos"], dtype=float).reshape(-1, 3) / G
    cell = np.array(c["cell"], dtype=float) / G
    pbc = [bool(x) for x in c["pbc"]]
    ext = c["ext"] / G
    out = {"id": c["id"]}
    at = Atoms(numbers=c["nums"], positions=pos, cell=cell, pbc=pbc)
    kind = c["kind"]
    if c.get("twin", c["id"] % 2 == 1) and any(pbc) and abs(np.linalg.det(cell)) > 1e-9:
        # process history, before anything else touches this structure: the same kind of calls on a TWIN structure -- same edge
        # lengths, pbc, extension, cutoff and number of atoms, but an orthogonal cell (state kept between calls and keyed on such
        # scalar invariants would be reused for the examined structure)
        try:
            twin_cell = np.diag(np.linalg.norm(cell, axis=1))
            tw = Atoms(numbers=c["nums"], positions=np.linalg.solve(cell.T, pos.T).T @ twin_cell, cell=twin_cell, pbc=pbc)
            MG.get_extended_system(tw, ext)
            if kind not in ("extend", "extend_deg"):
                cl_t = MG.get_cell_list(tw.get_positions(), tw.get_cell(), tw.get_pbc(), ext, c["cutoff"] / G)
                cl_t.get_neighbours_for_position(0.1, 0.2, 0.3)
            out["twin_first"] = True
        except Exception:
            pass
    if kind in ("extend", "extend_deg"):
        if c.get("history"):
            for e2 in (ext * 0.5, ext * 1.5):
                MG.get_extended_system(at, e2)
        es = MG.get_extended_system(at, ext)
        out["rows"] = [[hv(p), int(z), int(i), hv(f)] for p, z, i, f in
                       zip(np.asarray(es.positions).tolist(), np.asarray(es.atomic_numbers).tolist(),
                           np.asarray(es.indices).tolist(), np.asarray(es.factors).tolist())]
        f = np.asarray(es.factors)
        out["N"] = [int(f[:, k].max()) for k in range(3)] if len(f) else [0, 0, 0]
        # the call must not modify its input
        out["input_unchanged"] = bool(np.array_equal(at.get_positions(), pos))
        return out
    cutoff = c["cutoff"] / G
    out["N"], out["n_ext"] = copies_used(pos, cell, pbc, ext)
    probes = np.array(c["probes"], dtype=float).reshape(-1, 3) / G
    if c.get("history"):
        out["prior_error"] = prior_calls(at, ext, cutoff, probes, c)
    cl = MG.get_cell_list(at.get_positions(), at.get_cell(), at.get_pbc(), ext, cutoff)
    probes = np.array(c["probes"], dtype=float).reshape(-1, 3) / G
    if kind == "query":
        out["results"] = [rows_of(cl.get_neighbours_for_position(float(q[0]), float(q[1]), float(q[2]))) for q in probes]
        scl = shim().get_cell_list(at.get_positions(), np.asarray(at.get_cell()), at.get_pbc(), ext, cutoff)
        g, n = scl._geometry()
        out["geom"] = {"g": [hexf(x) for x in g], "n": [int(x) for x in n]}
        # shim-vs-installed fidelity on the first probe
        if len(probes):
            q = probes[0]
            r2 = rows_of(scl.get_neighbours_for_position(float(q[0]), float(q[1]), float(q[2])))
            out["shim_same"] = bool(r2 == out["results"][0])
    elif kind == "match":
        tol = c["tol"] / G
        m, s, v, ci = MG.get_matches(at, cl, probes, c["probe_nums"], tol)
        res = []
        for k in range(len(probes)):
            copy = hv(np.asarray(ci[k]).tolist())
            if m[k] is not None:
                res.append(["M", int(m[k]), copy])
            elif s[k] is not None:
                res.append(["S", int(s[k].index), copy, int(s[k].original_element), int(s[k].substitutional_element)])
            else:
                res.append(["V", copy])
        out["results"] = res
        out["n_vacancies"] = len(v)
        out["vacancy_ok"] = all(int(a.number) == int(c["probe_nums"][k]) for a, k in zip(v, [k for k in range(len(probes)) if res[k][0] == "V"]))
    elif kind == "simple":
        tol = c["tol"] / G
        rec = Recorder(cl)
        m, d = MG.get_matches_simple(at, rec, probes, c["probe_nums"], tol)
        out["results"] = [None if m[k] is None else [int(m[k]), hv(d[k])] for k in range(len(probes))]
        out["consistent"] = all((m[k] is None) == (d[k] is None) for k in range(len(probes)))
        out["queried"] = [hv(q) for q in rec.queried]
    return out


req = json.load(sys.stdin)
res = []
for c in req["cases"]:
    try:
        with time_limit(120):
            res.append(run_case(c))
    except Exception as e:
        res.append({"id": c["id"], "error": type(e).__name__ + ": " + str(e)[:300]})
print(json.dumps({"mode": mode, "results": res}, default=__import__("_util").jdefault))