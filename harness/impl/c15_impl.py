"""Implementation side of C15: SymmetryAnalyzer.get_space_group_number / get_is_chiral on the crystals
sent by harness/props/c15.py.

stdin : {"cases": [{"id": int, "crystal": {"cell", "scaled_positions", "numbers"}, "tol": float|None}]}
stdout: (last line) {"mode": ..., "results": [{id, number, hall, flag, rotations, scanned, dets, ...} | {id, error}]}

What get_is_chiral *scans* is observed without touching the source: while the method runs,
numpy.linalg.det is wrapped (from here, restored afterwards) and every matrix handed to it is recorded
together with the floating-point value it returned (hex, so nothing is lost).  This works for the
unchanged loop over dataset.rotations, for a loop over any other list and for a vectorised call on an
N x 3 x 3 stack.  `rotations` is the dataset's own integer array (contract S4 of DESIGN section 4).
"""
import json
import os
import sys

sys.path.insert(0, os.path.dirname(os.path.abspath(__file__)))
sys.path.insert(0, os.path.dirname(os.path.dirname(os.path.abspath(__file__))))
from _util import time_limit, call_getters  # noqa: E402
from lib import extshim  # noqa: E402

mode = extshim.install()

import numpy as np  # noqa: E402
from ase import Atoms  # noqa: E402
from matid.symmetry.symmetryanalyzer import SymmetryAnalyzer  # noqa: E402


class DetSpy:
    def __init__(self):
        self.seen = []
        self.vals = []
        self.nonint = 0

    def __enter__(self):
        self.orig = np.linalg.det
        spy = self

        def det(a, *args, **kw):
            r = spy.orig(a, *args, **kw)
            try:
                arr = np.asarray(a)
                mats = arr.reshape(-1, 3, 3) if arr.ndim >= 2 and arr.shape[-2:] == (3, 3) else None
                if mats is not None:
                    vals = np.asarray(r, dtype=float).reshape(-1)
                    for m, v in zip(mats, vals):
                        mi = np.rint(m).astype(int)
                        if not np.array_equal(mi, m):
                            spy.nonint += 1
                        spy.seen.append(mi.tolist())
                        spy.vals.append(float(v).hex())
            except Exception:  # the spy must never change the behaviour observed
                spy.nonint += 1
            return r
        np.linalg.det = det
        return self

    def __exit__(self, *exc):
        np.linalg.det = self.orig
        return False


SHARED = {}


def one(case):
    cr = case["crystal"]
    atoms = Atoms(numbers=cr["numbers"], cell=cr["cell"], scaled_positions=cr["scaled_positions"], pbc=True)
    tol = case.get("tol")
    an = SymmetryAnalyzer(atoms, symmetry_tol=tol) if tol is not None else SymmetryAnalyzer(atoms)
    number = int(an.get_space_group_number())
    hall = int(an.get_hall_number())
    ds = an.get_symmetry_dataset()
    rots = np.array(ds.rotations)
    with DetSpy() as spy:
        flag = an.get_is_chiral()
    # a second, fresh analyzer must give the same answer (no hidden state)
    an2 = SymmetryAnalyzer(atoms, symmetry_tol=tol) if tol is not None else SymmetryAnalyzer(atoms)
    flag2 = an2.get_is_chiral()
    # history "order of public calls": on a third fresh analyzer a pseudo-random selection of the other public getters is
    # called first (order a pure function of the case id, or given explicitly by a replay); the flag must be the same
    called, flag3 = None, None
    try:
        an3 = SymmetryAnalyzer(atoms.copy(), symmetry_tol=tol) if tol is not None else SymmetryAnalyzer(atoms.copy())
        called = call_getters(an3, seed=case.get("getter_seed", case["id"]), names=case.get("getters"), skip=("get_is_chiral",))
        flag3 = bool(an3.get_is_chiral())
    except Exception as e:  # noqa
        flag3 = "error: " + type(e).__name__ + ": " + str(e)[:120]
    # history: ONE analyzer object per tolerance is handed every crystal of this process through set_system(); its answer
    # must be the answer of a fresh analyzer
    reused = None
    try:
        sh = SHARED.get(tol)
        if sh is None:
            sh = SHARED[tol] = SymmetryAnalyzer(atoms.copy(), symmetry_tol=tol) if tol is not None else SymmetryAnalyzer(atoms.copy())
        else:
            sh.set_system(atoms.copy())
        reused = [bool(sh.get_is_chiral()), int(sh.get_space_group_number()), bool(sh.get_is_chiral())]
    except Exception as e:  # noqa
        reused = ["error", type(e).__name__ + ": " + str(e)[:120]]
    return {"id": case["id"], "number": number, "hall": hall, "reused_analyzer": reused, "getters_called_first": called, "flag_after_getters": flag3,
            "flag": bool(flag), "flag_type": type(flag).__name__, "flag_again": bool(flag2),
            "rotations": rots.astype(int).tolist(), "rotations_dtype": str(rots.dtype),
            "scanned": spy.seen, "dets": spy.vals, "nonint": spy.nonint}


req = json.load(sys.stdin)
res = []
for case in req.get("cases", []):
    try:
        with time_limit(case.get("time_limit", 120)):
            res.append(one(case))
    except Exception as e:  # noqa
        res.append({"id": case["id"], "error": type(e).__name__ + ": " + str(e)[:300]})
print(json.dumps({"mode": mode, "results": res}, default=__import__("_util").jdefault))