"""Implementation side of C05/C06 (shared): run SymmetryAnalyzer on crystal presentations and return the
spglib data the model consumes, what the analyzer chose and returned, and an independent spglib run on
the returned conventional system."""
import json
import os
import sys

import numpy as np

sys.path.insert(0, os.path.dirname(os.path.abspath(__file__)))
from _util import time_limit, call_getters, plan_getters  # noqa

req = json.load(sys.stdin)

import spglib  # noqa
from ase import Atoms  # noqa
from matid.symmetry.symmetryanalyzer import SymmetryAnalyzer  # noqa
from matid.data.symmetry_data import CHIRALITY_PRESERVING_EUCLIDEAN_NORMALIZERS as NORMS  # noqa


def g(ds, key):
    return ds[key] if isinstance(ds, dict) else getattr(ds, key)


def run_one(c):
    cr = c["crystal"]
    at = Atoms(numbers=cr["numbers"], cell=cr["cell"], scaled_positions=cr["scaled_positions"], pbc=True)
    before = (at.get_positions().copy(), at.get_cell().array.copy(), at.get_atomic_numbers().copy())
    tol = c.get("tol", 1e-3)
    a = SymmetryAnalyzer(at, symmetry_tol=tol)
    called = None
    if c.get("getters") is not None or c.get("getter_seed") is not None:
        # history: a selection of the other public getters is called first, in a shuffled order
        called = call_getters(a, seed=c.get("getter_seed"), names=c.get("getters"))
    ds = a.get_symmetry_dataset()
    out = {"id": c["id"], "getters_called_first": called, "number": int(g(ds, "number")), "hall_number": int(g(ds, "hall_number")),
           "international": str(g(ds, "international")), "pointgroup_spglib": str(g(ds, "pointgroup"))}
    # an INDEPENDENT symmetry search on the input as given (same tolerance), not through the analyzer: the reference for
    # "the idealized standardized atoms of the input"
    dsi = spglib.get_symmetry_dataset((np.array(cr["cell"], dtype=float), np.array(cr["scaled_positions"], dtype=float) % 1.0,
                                       np.array(cr["numbers"])), symprec=tol)
    if dsi is not None:
        out["ind_number"] = int(g(dsi, "number"))
        out["ind_std_lattice"] = np.array(g(dsi, "std_lattice")).tolist()
        out["ind_std_positions"] = np.array(g(dsi, "std_positions")).tolist()
        out["ind_std_types"] = [int(x) for x in g(dsi, "std_types")]
    out["std_lattice"] = np.array(g(ds, "std_lattice")).tolist()
    out["std_positions"] = np.array(g(ds, "std_positions")).tolist()
    out["std_types"] = [int(x) for x in g(ds, "std_types")]
    out["spglib_letters_conv"] = [str(x) for x in a._get_spglib_wyckoff_letters_conventional()]
    conv = a.get_conventional_system()
    out["conv_cell"] = np.array(conv.get_cell()).tolist()
    out["conv_scaled"] = conv.get_scaled_positions(wrap=False).tolist()
    out["conv_numbers"] = [int(x) for x in conv.get_atomic_numbers()]
    out["conv_letters"] = [None if x is None else str(x) for x in a.get_wyckoff_letters_conventional()]
    bt = a._best_transform
    idx = None
    for k, n in enumerate(NORMS.get(out["number"], [])):
        if n["permutations"] is bt["permutations"] and n["transformation"] is bt["transformation"]:
            idx = k + 1
    if idx is None and (bt.get("identity") or (np.array_equal(np.array(bt["transformation"]), np.identity(4))
                                                 and all(k == v for k, v in bt["permutations"].items()))):
        # the identity candidate (the code's representation dict does not carry the "identity" flag)
        idx = 0
    out["chosen_index"] = idx
    out["chosen_transformation"] = np.array(bt["transformation"]).tolist()
    sets = a.get_wyckoff_sets_conventional(return_parameters=False)
    out["wyckoff_sets"] = [{"letter": s.wyckoff_letter, "element": s.element, "z": int(s.atomic_number),
                            "indices": [int(i) for i in s.indices], "multiplicity": int(s.multiplicity)} for s in sets]
    out["material_id"] = a.get_material_id()
    out["labels"] = {"hall_number": int(a.get_hall_number()), "point_group": a.get_point_group(),
                     "bravais": a.get_bravais_lattice(), "crystal_system": a.get_crystal_system(),
                     "hall_symbol": a.get_hall_symbol(), "international": a.get_space_group_international_short()}
    out["has_free"] = bool(a.get_has_free_wyckoff_parameters())
    # independent symmetry search on the returned structure
    ds2 = spglib.get_symmetry_dataset((np.array(conv.get_cell()), conv.get_scaled_positions(), conv.get_atomic_numbers()), symprec=tol)
    out["conv_number_independent"] = None if ds2 is None else int(g(ds2, "number"))
    after = (at.get_positions(), at.get_cell().array, at.get_atomic_numbers())
    out["input_untouched"] = bool(all(np.array_equal(x, y) for x, y in zip(before, after)))
    out["volume_per_atom_input"] = float(at.get_volume() / len(at))
    out["volume_per_atom_conv"] = float(conv.get_volume() / len(conv))
    return out


def summary(a):
    conv = a.get_conventional_system()
    sets = a.get_wyckoff_sets_conventional(return_parameters=False)
    return {"number": int(a.get_space_group_number()), "material_id": a.get_material_id(),
            "conv_numbers": [int(x) for x in conv.get_atomic_numbers()],
            "conv_cell": np.array(conv.get_cell()).tolist(),
            "conv_scaled": conv.get_scaled_positions(wrap=False).tolist(),
            "multiset": sorted([s.wyckoff_letter, s.element, int(s.multiplicity)] for s in sets)}


reuse_rows = []


def variants(cr):
    """the crystal, a strained copy and a substituted copy -- all with the same number of atoms, so that ONE Atoms
    object can be edited in place from one to the next"""
    out = [("as given", cr)]
    cell = np.array(cr["cell"], dtype=float)
    st = dict(cr)
    st["cell"] = (cell * np.array([[1.0], [1.0], [1.06]])).tolist()
    out.append(("strained 6 % along c", st))
    sub = dict(cr)
    nums = list(cr["numbers"])
    nums[0] = 83 if nums[0] != 83 else 82
    sub["numbers"] = nums
    out.append(("first atom substituted", sub))
    return out


def same_summary(s1, s2):
    return (s1["number"] == s2["number"] and s1["material_id"] == s2["material_id"] and s1["conv_numbers"] == s2["conv_numbers"]
            and s1["multiset"] == s2["multiset"] and np.allclose(s1["conv_cell"], s2["conv_cell"], atol=1e-8)
            and np.allclose(np.array(s1["conv_scaled"]) % 1.0, np.array(s2["conv_scaled"]) % 1.0, atol=1e-8))


if req.get("reuse"):
    # one analyzer instance fed successive structures through set_system -- new Atoms objects and THE SAME Atoms
    # object edited in place (strain, substitution) and handed in again: every answer must equal the answer of a
    # freshly constructed analyzer on a copy of the structure as it is at that moment
    shared = None
    buf = None
    for c in req["reuse"]:
        for what, cr in variants(c["crystal"]):
            try:
                with time_limit(120):
                    if buf is not None and len(buf) == len(cr["numbers"]):
                        buf.set_cell(cr["cell"], scale_atoms=False)
                        buf.set_atomic_numbers(cr["numbers"])
                        buf.set_scaled_positions(cr["scaled_positions"])
                        how = "same Atoms object edited in place"
                    else:
                        buf = Atoms(numbers=cr["numbers"], cell=cr["cell"], scaled_positions=cr["scaled_positions"], pbc=True)
                        how = "new Atoms object"
                    if shared is None:
                        shared = SymmetryAnalyzer(buf, symmetry_tol=c.get("tol", 1e-3))
                    else:
                        shared.set_system(buf)
                    try:
                        s2 = summary(SymmetryAnalyzer(buf.copy(), symmetry_tol=c.get("tol", 1e-3)))
                    except Exception as e2:     # the structure itself cannot be analysed: not a statement about reuse
                        reuse_rows.append({"id": c["id"], "same": True, "step": what, "how": how, "fresh_raised": type(e2).__name__})
                        try:
                            summary(shared)
                        except Exception:
                            pass
                        continue
                    s1 = summary(shared)
                    reuse_rows.append({"id": c["id"], "same": bool(same_summary(s1, s2)), "step": what, "how": how,
                                       "reused": {k: s1[k] for k in ("number", "material_id", "multiset")},
                                       "fresh": {k: s2[k] for k in ("number", "material_id", "multiset")}})
            except Exception as e:
                reuse_rows.append({"id": c["id"], "step": what, "error": type(e).__name__ + ": " + str(e)[:200]})

rows = []
for c in req.get("cases", []):
    try:
        with time_limit(c.get("time_limit", 120)):
            rows.append(run_one(c))
    except Exception as e:
        import traceback
        rows.append({"id": c["id"], "error": type(e).__name__ + ": " + str(e)[:300], "tb": traceback.format_exc()[-600:],
                     "getters_called_first": c.get("getters") if c.get("getters") is not None else
                     (plan_getters(SymmetryAnalyzer, c["getter_seed"]) if c.get("getter_seed") is not None else None)})
print(json.dumps({"rows": rows, "reuse": reuse_rows}, default=__import__("_util").jdefault))