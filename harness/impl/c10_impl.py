"""Implementation side of C10: matid.geometry.get_displacement_tensor / get_distances on grid inputs,
plus the copy counts extend_system actually used (observed through matid.ext.extend_system with the
same extension).  stdin: {"cases": [...]}; stdout: JSON with doubles as hex strings."""
import json, sys, os, math
sys.path.insert(0, os.path.dirname(os.path.abspath(__file__)))
sys.path.insert(0, os.path.join(os.path.dirname(os.path.abspath(__file__)), ".."))
from lib import extshim
mode = extshim.install()
import numpy as np
from ase import Atoms
import matid.geometry as MG
import matid.ext
from _util import time_limit

G = 4096.0


def hexf(x):
    x = float(x)
    if math.isinf(x):
        return "inf" if x > 0 else "-inf"
    if math.isnan(x):
        return "nan"
    return x.hex()


def ext_length(cell, pbc, cutoff):
    if cutoff is not None:
        return cutoff
    m = 0.0
    for i in range(3):
        if pbc[i]:
            acc = 0.0
            for x in cell[i]:
                acc += x * x
            m = max(m, math.sqrt(acc))
    return m


def copies_used(pos, cell, pbc, ext):
    es = matid.ext.extend_system(pos, np.zeros(len(pos), dtype=np.int32), cell, np.array(pbc, dtype=bool), ext)
    f = np.asarray(es.factors)
    return [int(f[:, k].max()) for k in range(3)], int(len(f))


def run_case(c):
    pos = np.array(c["pos"], dtype=float) / G
    cell = np.array(c["cell"], dtype=float) / G
    pbc = [bool(x) for x in c["pbc"]]
    cutoff = None if c["cutoff"] is None else c["cutoff"] / G
    out = {"id": c["id"]}
    N, next_ = copies_used(pos, cell, pbc, ext_length(cell.tolist(), pbc, cutoff))
    out["N"] = N
    out["n_ext"] = next_
    if c["api"] == "distances":
        at = Atoms(numbers=[1 + (i % 8) for i in range(len(pos))], positions=pos, cell=cell, pbc=pbc)
        d = MG.get_distances(at)
        disp, fac, dist = d.disp_tensor_mic, d.disp_factors, d.dist_matrix_mic
        # dist_matrix_radii_mic = dist - (r_i + r_j): checked here, bit-exact
        radii = MG.get_radii("covalent", at.get_atomic_numbers())
        out["radii_ok"] = bool(np.array_equal(d.dist_matrix_radii_mic, dist - (radii[:, None] + radii[None, :])))
    else:
        if all(pbc) and c.get("pbc_scalar"):
            pbc_arg = True
        elif not any(pbc) and c.get("pbc_scalar"):
            pbc_arg = False
        else:
            pbc_arg = pbc
        kw = {}
        if c["cutoff"] is None:
            if c.get("cutoff_kind") == "None":
                kw["cutoff"] = None
            elif c["id"] % 3:
                kw["cutoff"] = float("inf")
            # else: the wrapper's default (infinite)
        else:
            kw["cutoff"] = cutoff
        pos_before = pos.copy()
        disp, fac, dist = MG.get_displacement_tensor(pos, cell, pbc_arg, return_factors=True, return_distances=True, **kw)
        out["input_unchanged"] = bool(np.array_equal(pos, pos_before))
    out["dist"] = [[hexf(x) for x in row] for row in np.asarray(dist).tolist()]
    out["disp"] = [[[hexf(x) for x in v] for v in row] for row in np.asarray(disp).tolist()]
    out["fac"] = [[[hexf(x) for x in v] for v in row] for row in np.asarray(fac).tolist()]
    return out


req = json.load(sys.stdin)
res = []
for c in req["cases"]:
    try:
        with time_limit(120):
            res.append(run_case(c))
    except Exception as e:
        res.append({"id": c["id"], "error": type(e).__name__ + ": " + str(e)[:300]})
print(json.dumps({"mode": mode, "results": res}, default=__import__("_util").jdefault))