"""Implementation side of C10: matid.geometry.get_displacement_tensor / get_distances on grid inputs,
plus the copy counts extend_system actually used (observed through matid.ext.extend_system with the
same extension).  stdin: {"cases": [...]}; stdout: JSON with doubles as hex strings."""
import json, sys, os, math
sys.path.insert(0, os.path.dirname(os.path.abspath(__file__)))
sys.path.insert(0, os.path.join(os.path.dirname(os.path.abspath(__file__)), ".."))
from lib import extshim
mode = extshim.install()
import numpy as np
from ase import Atoms
import matid.geometry as MG
import matid.ext
from _util import time_limit

G = 4096.0


def hexf(x):
    x = float(x)
    if math.isinf(x):
        return "inf" if x > 0 else "-inf"
    if math.isnan(x):
        return "nan"
    return x.hex()


def ext_length(cell, pbc, cutoff):
    if cutoff is not None:
        return cutoff
    m = 0.0
    for i in range(3):
        if pbc[i]:
            acc = 0.0
            for x in cell[i]:
                acc += x * x
            m = max(m, math.sqrt(acc))
    return m


def copies_used(pos, cell, pbc, ext):
    es = matid.ext.extend_system(pos, np.zeros(len(pos), dtype=np.int32), cell, np.array(pbc, dtype=bool), ext)
    f = np.asarray(es.factors)
    return [int(f[:, k].max()) for k in range(3)], int(len(f))


def snap(d):
    return [np.array(x, copy=True) for x in (d.disp_tensor_mic, d.disp_factors, d.dist_matrix_mic, d.dist_matrix_radii_mic)]


def same(a, b):
    return all(x.shape == y.shape and np.array_equal(x, y) for x, y in zip(a, b))


def library_history(at):
    """other entry points of the library, called on the same structure in the same process (each on its own
    copy); whatever they do or raise, a later table must not depend on it"""
    import contextlib, io
    from matid.classification import Classifier
    from matid.clustering import SBC
    with contextlib.redirect_stdout(io.StringIO()):
        for f in (lambda: Classifier().classify(at.copy()),
                  lambda: SBC().get_clusters(at.copy()),
                  lambda: MG.get_dimensionality(at.copy())):
            try:
                with time_limit(20):
                    f()
            except Exception:
                pass


def run_case(c):
    pos = np.array(c["pos"], dtype=float) / G
    cell = np.array(c["cell"], dtype=float) / G
    pbc = [bool(x) for x in c["pbc"]]
    cutoff = None if c["cutoff"] is None else c["cutoff"] / G
    out = {"id": c["id"]}
    if c.get("twin") and any(pbc):
        # process history, BEFORE anything else touches this structure: the same kind of call on a TWIN structure -- same edge
        # lengths, same pbc, same cutoff, same number of atoms, but an orthogonal cell (state kept between calls and keyed on such
        # scalar invariants would be reused for the examined structure)
        try:
            ln = np.linalg.norm(cell, axis=1)
            twin_cell = np.diag(ln)
            sc = np.linalg.solve(cell.T, pos.T).T
            MG.get_displacement_tensor(sc @ twin_cell, twin_cell, pbc, cutoff=(float("inf") if cutoff is None else cutoff),
                                       return_factors=True, return_distances=True)
        except Exception:
            pass
    N, next_ = copies_used(pos, cell, pbc, ext_length(cell.tolist(), pbc, cutoff))
    out["N"] = N
    out["n_ext"] = next_
    if c["api"] == "distances":
        at = Atoms(numbers=[1 + (i % 8) for i in range(len(pos))], positions=pos, cell=cell, pbc=pbc)
        if c.get("history"):
            # the statement is about a function of the input: the table of a structure must be the same before and
            # after other library calls on that structure, and after the caller scribbled over arrays it was handed
            w = at.copy()
            w.wrap()
            d0, dw0 = MG.get_distances(at), MG.get_distances(w)
            r0, rw0 = snap(d0), snap(dw0)
            library_history(at)
            for dd in (d0, dw0):
                for arr in (dd.disp_tensor_mic, dd.disp_factors, dd.dist_matrix_mic, dd.dist_matrix_radii_mic):
                    try:
                        arr[...] = 777.0
                    except ValueError:
                        pass
            out["history_same"] = bool(same(snap(MG.get_distances(at)), r0) and same(snap(MG.get_distances(w)), rw0))
        d = MG.get_distances(at)
        disp, fac, dist = d.disp_tensor_mic, d.disp_factors, d.dist_matrix_mic
        # dist_matrix_radii_mic = dist - (r_i + r_j): checked here, bit-exact
        radii = MG.get_radii("covalent", at.get_atomic_numbers())
        out["radii_ok"] = bool(np.array_equal(d.dist_matrix_radii_mic, dist - (radii[:, None] + radii[None, :])))
    else:
        if all(pbc) and c.get("pbc_scalar"):
            pbc_arg = True
        elif not any(pbc) and c.get("pbc_scalar"):
            pbc_arg = False
        else:
            pbc_arg = pbc
        kw = {}
        if c["cutoff"] is None:
            if c.get("cutoff_kind") == "None":
                kw["cutoff"] = None
            elif c["id"] % 3:
                kw["cutoff"] = float("inf")
            # else: the wrapper's default (infinite)
        else:
            kw["cutoff"] = cutoff
        pos_before, cell_before = pos.copy(), cell.copy()
        pbc_arr = None
        if c.get("pbc_array") and not isinstance(pbc_arg, bool):
            # the caller owns ONE boolean ndarray of periodicity flags and hands it to every call (as `atoms.pbc` would be):
            # two earlier calls with small finite cutoffs on the same arrays, then the examined call
            pbc_arg = pbc_arr = np.array(pbc, dtype=bool)
            for small in (0.25, 1.0):
                try:
                    MG.get_displacement_tensor(pos, cell, pbc_arg, cutoff=small)
                except Exception:
                    pass
        if c.get("history"):
            # earlier calls on the same positions with other cutoffs / return flags, results scribbled over
            r0 = [np.array(x, copy=True) for x in MG.get_displacement_tensor(pos, cell, pbc_arg, return_factors=True, return_distances=True, **kw)]
            for k2 in ({"cutoff": 0.75}, {"cutoff": 3.0}, {}):
                for flags in ((True, True), (False, True), (True, False)):
                    got = MG.get_displacement_tensor(pos, cell, pbc_arg, return_factors=flags[0], return_distances=flags[1], **k2)
                    for arr in (got if isinstance(got, (list, tuple)) else [got]):
                        arr[...] = 777.0
            r1 = MG.get_displacement_tensor(pos, cell, pbc_arg, return_factors=True, return_distances=True, **kw)
            out["history_same"] = bool(all(np.array_equal(a, b) for a, b in zip(r0, r1)))
        disp, fac, dist = MG.get_displacement_tensor(pos, cell, pbc_arg, return_factors=True, return_distances=True, **kw)
        changed = [n for n, a, b in (("positions", pos, pos_before), ("cell", cell, cell_before)) if not np.array_equal(a, b)]
        if pbc_arr is not None and not np.array_equal(pbc_arr, np.array(pbc, dtype=bool)):
            changed.append("pbc")
        out["input_unchanged"] = not changed
        out["input_changed"] = changed
    out["dist"] = [[hexf(x) for x in row] for row in np.asarray(dist).tolist()]
    out["disp"] = [[[hexf(x) for x in v] for v in row] for row in np.asarray(disp).tolist()]
    out["fac"] = [[[hexf(x) for x in v] for v in row] for row in np.asarray(fac).tolist()]
    return out


req = json.load(sys.stdin)
res = []
for c in req["cases"]:
    try:
        with time_limit(120):
            res.append(run_case(c))
    except Exception as e:
        res.append({"id": c["id"], "error": type(e).__name__ + ": " + str(e)[:300]})
print(json.dumps({"mode": mode, "results": res}, default=__import__("_util").jdefault))