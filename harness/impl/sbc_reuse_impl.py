"""History stream for C01/C13: ONE SBC instance clusters successive structures (the same atoms first with
another periodicity, then the same atoms with other radii / thresholds (case["prior"]), then as given); every
answer must equal that of a fresh SBC() and every returned cluster must satisfy the C13 predicate
(shortcut == direct get_dimensionality on the cluster's atoms with the radii and threshold of THAT call)."""
import json
import os
import sys

import numpy as np

sys.path.insert(0, os.path.dirname(os.path.abspath(__file__)))
sys.path.insert(0, os.path.dirname(os.path.dirname(os.path.abspath(__file__))))
from _util import time_limit  # noqa
from lib import extshim  # noqa
MODE = extshim.install()

from ase import Atoms  # noqa
import matid.geometry as G  # noqa
from matid.clustering import SBC  # noqa

req = json.load(sys.stdin)


def canon(clusters):
    return sorted(sorted(int(i) for i in c.indices) for c in clusters)


def real_kwargs(kw):
    kw = dict(kw)
    if isinstance(kw.get("radii"), dict):
        kw["radii"] = np.asarray(kw["radii"]["array"], dtype=float)
    return kw


def dims_ok(clusters, thr, radii):
    bad = []
    for c in clusters:
        sc = c.get_dimensionality()
        at = c.get_atoms()
        if isinstance(radii, str):
            rr = G.get_radii(radii, at.get_atomic_numbers())
        else:
            rr = np.asarray(radii, dtype=float)[[int(i) for i in c.indices]]
        direct = G.get_dimensionality(at, thr, radii=rr)
        again = c.get_dimensionality()
        if sc != direct or sc != again:
            bad.append({"indices": sorted(int(i) for i in c.indices)[:12], "n": len(c.indices), "shortcut": sc, "direct": direct, "again": again})
    return bad


rows = []
shared = SBC()
for case in req["cases"]:
    s = case["structure"]
    row = {"id": case["id"]}
    try:
        with time_limit(case.get("time_limit", 180)):
            kw = real_kwargs(case.get("kwargs", {}))
            thr = kw.get("bond_threshold", 0.65)
            radii = kw.get("radii", "covalent")
            at = Atoms(numbers=s["numbers"], positions=s["positions"], cell=s["cell"], pbc=s["pbc"])
            alt = at.copy()
            alt.set_pbc(case["alt_pbc"])
            try:
                shared.get_clusters(alt, **kw)       # history: same atoms, other periodicity
            except ValueError:
                pass
            # history: OTHER structures in the same box with the same number of atoms (translated, permuted, another element)
            import random as _random
            r_ = _random.Random(case["id"])
            for how in case.get("prior_structures", []):
                oth = at.copy()
                if how == "translated":
                    oth.set_positions(oth.get_positions() + np.array([r_.uniform(0.3, 2.0) for _ in range(3)]))
                elif how == "permuted":
                    order = list(range(len(oth)))
                    r_.shuffle(order)
                    oth = oth[order]
                elif how == "other-element":
                    z = oth.get_atomic_numbers()
                    oth.set_atomic_numbers([79 if x != 79 else 47 for x in z])
                try:
                    shared.get_clusters(oth, **kw)
                except ValueError:
                    pass
            row["prior_dim_mismatch"] = []
            for pk in case.get("prior", []):      # history: the very same atoms, other radii / thresholds
                pk = real_kwargs(pk)
                try:
                    pc = shared.get_clusters(at, **pk)
                    row["prior_dim_mismatch"] += dims_ok(pc, pk.get("bond_threshold", 0.65), pk.get("radii", "covalent"))
                except ValueError:
                    pass
            if case["id"] % 2 == 1:
                # history: THE SAME Atoms object, clustered before by the shared instance, is edited in place (atoms re-ordered,
                # a third of them relabelled) and handed in again; the reference is a fresh SBC on a copy of the edited object
                try:
                    shared.get_clusters(at, **kw)
                except ValueError:
                    pass
                order = list(range(len(at)))
                r_.shuffle(order)
                z = at.get_atomic_numbers()[order]
                for i in range(len(z)):
                    if r_.random() < 0.33:
                        z[i] = 79 if z[i] != 79 else 47
                at.set_positions(at.get_positions()[order])
                at.set_atomic_numbers(z)
                if isinstance(kw.get("radii"), np.ndarray):
                    kw["radii"] = kw["radii"][order]
                radii = kw.get("radii", "covalent")
                row["inplace_edit"] = True
            got = shared.get_clusters(at, **kw)
            ref = SBC().get_clusters(at.copy(), **kw)
            row["same_as_fresh"] = canon(got) == canon(ref)
            row["clusters_shared"] = canon(got)[:6]
            row["clusters_fresh"] = canon(ref)[:6]
            row["dim_mismatch"] = dims_ok(got, thr, radii)
    except Exception as e:
        row["error"] = type(e).__name__ + ": " + str(e)[:200]
    rows.append(row)
print(json.dumps({"rows": rows, "ext_mode": MODE}, default=__import__("_util").jdefault))