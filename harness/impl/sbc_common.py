"""Implementation-side helpers shared by c01_impl.py and c13_impl.py.

Everything here observes matid through its public API plus module-level monkey-patching done from
the harness (DESIGN.md 2.2): `matid.clustering.sbc.PeriodicFinder` is replaced by a scripted stub or
by a logging subclass of the real class; the three private stage methods of SBC are wrapped only to
take snapshots of the cluster lists between stages (they are called unchanged).
"""
import copy
import os
import sys
from fractions import Fraction

import numpy as np

sys.path.insert(0, os.path.dirname(os.path.dirname(os.path.abspath(__file__))))
from lib import extshim  # noqa: E402

SHIM_MODE = extshim.install()

from ase import Atoms  # noqa: E402
import matid.geometry  # noqa: E402
import matid.clustering.sbc as sbcmod  # noqa: E402
from matid.clustering import SBC  # noqa: E402
from matid.core.periodicfinder import PeriodicFinder as RealFinder  # noqa: E402


def atoms_from(case):
    return Atoms(numbers=case["numbers"], positions=case["positions"], cell=case["cell"], pbc=case["pbc"])


def atoms_state(at):
    """deep, hashable-free picture of everything a caller can see on an Atoms object"""
    return {
        "numbers": at.get_atomic_numbers().tolist(),
        "positions": [[float(x).hex() for x in r] for r in at.get_positions()],
        "cell": [[float(x).hex() for x in r] for r in np.array(at.get_cell())],
        "pbc": [bool(b) for b in at.get_pbc()],
        "arrays": sorted((k, v.dtype.str, v.shape, v.tobytes().hex()) for k, v in at.arrays.items()),
        "info": repr(sorted(at.info.items())),
        "constraints": repr(at.constraints),
        "calc": repr(at.calc),
    }


class NonTermination(Exception):
    """raised by the harness-side finder when the driver loop makes more than n calls although every
    answer satisfied F0 (theorem drive_terminates: impossible for the modelled loop)"""


class StubRegion:
    """What SBC needs from a LinkedUnitCollection: get_basis_indices() (a set) and .cell (pbc)."""

    def __init__(self, rid, basis, pbc):
        self.rid = rid
        self._basis = set(int(i) for i in basis)
        self.cell = Atoms(numbers=[1], positions=[[0, 0, 0]], cell=[3.0, 3.0, 3.0], pbc=pbc)
        self.is_2d = sum(bool(b) for b in pbc) == 2

    def get_basis_indices(self):
        return self._basis


class Recorder:
    def __init__(self):
        self.calls = []          # per get_region call: dict(seed, rid|None, basis, pbc, mask, f0)
        self.distances = None
        self.system = None
        self.regions = {}        # id(region) -> rid
        self.stages = {}
        self.kwargs = None


def make_stub_finder(rec, regions, script):
    """regions: list of dict(basis, pbc); script: per seed atom dict(region: k|None, mask: [i..])."""
    pool = [StubRegion(k, r["basis"], r["pbc"]) for k, r in enumerate(regions)]
    for r in pool:
        rec.regions[id(r)] = r.rid

    class StubFinder:
        def __init__(self, *a, **k):
            pass

        def get_region(self, system, seed_index, max_cell_size, pos_tol, bond_threshold=None,
                       overlap_threshold=-0.6, distances=None, return_mask=False):
            rec.distances = distances
            rec.system = system
            if len(rec.calls) > len(system):
                raise NonTermination("more than n=%d finder calls; seeds so far %r" % (len(system), [c["seed"] for c in rec.calls[:12]]))
            s = int(seed_index)
            ent = script[s]
            mask = np.zeros(len(system), dtype=bool)
            mask[ent["mask"]] = True
            reg = None if ent["region"] is None else pool[ent["region"]]
            rec.calls.append({"seed": s, "rid": None if reg is None else reg.rid,
                              "basis": None if reg is None else sorted(reg._basis),
                              "pbc": None if reg is None else [bool(b) for b in reg.cell.get_pbc()],
                              "mask": sorted(int(i) for i in ent["mask"])})
            if return_mask:
                return reg, mask
            return reg

    return StubFinder


def make_logging_finder(rec):
    class LoggingFinder(RealFinder):
        def get_region(self, system, seed_index, *a, **k):
            rec.distances = k.get("distances")
            rec.system = system
            if len(rec.calls) > len(system):
                raise NonTermination("more than n=%d finder calls; seeds so far %r" % (len(system), [c["seed"] for c in rec.calls[:12]]))
            out = RealFinder.get_region(self, system, seed_index, *a, **k)
            reg, mask = out
            mask = np.asarray(mask)
            ent = {"seed": int(seed_index), "rid": None, "basis": None, "pbc": None,
                   "mask": [int(i) for i in np.arange(len(mask))[mask.astype(bool)]],
                   "mask_len": int(len(mask)), "mask_dtype": str(mask.dtype)}
            if reg is not None:
                k_id = len(rec.calls)
                rec.regions[id(reg)] = k_id
                ent["rid"] = k_id
                bas = list(reg.get_basis_indices())
                ent["basis_raw_ok"] = all(float(i) == int(i) for i in bas)
                ent["basis"] = sorted(int(i) for i in bas)
                cell = getattr(reg, "cell", None)
                ent["pbc"] = None if cell is None else [bool(b) for b in cell.get_pbc()]
            rec.calls.append(ent)
            rec.keep = getattr(rec, "keep", [])
            rec.keep.append(reg)          # keep regions alive so that id() stays unique
            return out

    return LoggingFinder


def snap(rec, clusters):
    out = []
    for c in clusters:
        reg = c._region
        out.append({"idx": [int(i) for i in c.indices],
                    "spec": sorted(int(z) for z in c.species),
                    "rid": rec.regions.get(id(reg), -1),
                    "merged": bool(c._merged),
                    "radii": c._radii is not None})
    return out


class patched_sbc:
    """context manager: finder replaced, stage methods wrapped for snapshots"""

    def __init__(self, rec, finder_cls):
        self.rec = rec
        self.finder_cls = finder_cls

    def __enter__(self):
        rec = self.rec
        self.saved = (sbcmod.PeriodicFinder, SBC._merge_clusters, SBC._localize_clusters, SBC._clean_clusters)
        o_merge, o_loc, o_clean = self.saved[1:]

        def merge(self_, system, clusters, *a, **k):
            rec.stages["drive"] = snap(rec, clusters)
            out = o_merge(self_, system, clusters, *a, **k)
            rec.stages["merge"] = snap(rec, out)
            return out

        def loc(self_, system, clusters, *a, **k):
            out = o_loc(self_, system, clusters, *a, **k)
            rec.stages["local"] = snap(rec, out)
            return out

        def clean(self_, clusters, *a, **k):
            out = o_clean(self_, clusters, *a, **k)
            rec.stages["clean"] = snap(rec, out)
            return out

        sbcmod.PeriodicFinder = self.finder_cls
        SBC._merge_clusters = merge
        SBC._localize_clusters = loc
        SBC._clean_clusters = clean
        return self

    def __exit__(self, *exc):
        sbcmod.PeriodicFinder, SBC._merge_clusters, SBC._localize_clusters, SBC._clean_clusters = self.saved
        return False


def resolve_radii(spec, numbers):
    """spec: 'covalent' | 'vdw' | 'vdw_covalent' | {'array': [...]} -> argument for get_clusters"""
    if isinstance(spec, dict):
        return np.array(spec["array"], dtype=float)
    return spec


def frac(x):
    f = Fraction(float(x))
    return [str(f.numerator), str(f.denominator)]


def neighbour_lists(D, thr, strict):
    """rows of j with D[i,j] < thr (strict) or <= thr, evaluated on the doubles"""
    M = (D < thr) if strict else (D <= thr)
    return [[int(j) for j in np.nonzero(M[i])[0]] for i in range(D.shape[0])]


def mic_bond_graph(atoms, radii_arr, thr, eps=1e-9):
    """Independent recomputation of the bonding criterion: ASE's minimum-image distances of the
    caller's (unmodified) structure minus radii <= thr.  Returns (sure, maybe) boolean matrices:
    `sure` = d <= thr - eps, `maybe` = d <= thr + eps."""
    from ase.geometry import get_distances as ase_get_distances
    n = len(atoms)
    cell = np.array(atoms.get_cell())
    pbc = np.array(atoms.get_pbc())
    # a zero cell vector is only legal on a non-periodic axis; give ASE a completed cell
    from ase.geometry import complete_cell
    if (np.abs(cell).sum(axis=1) == 0).any():
        cell = complete_cell(cell)
    pos = atoms.get_positions()
    if pbc.any():
        _, d = ase_get_distances(pos, cell=cell, pbc=pbc)
    else:
        d = np.linalg.norm(pos[:, None, :] - pos[None, :, :], axis=2)
    dr = d - (radii_arr[:, None] + radii_arr[None, :])
    return dr <= thr - eps, dr <= thr + eps


def connected(idx, adj):
    idx = list(idx)
    if not idx:
        return False
    pos = {a: k for k, a in enumerate(idx)}
    seen = {idx[0]}
    todo = [idx[0]]
    while todo:
        a = todo.pop()
        for b in idx:
            if b not in seen and adj[a, b]:
                seen.add(b)
                todo.append(b)
    return len(seen) == len(idx)
