"""Implementation side of C11: SymmetryAnalyzer on 2D (two periodic directions) inputs.

stdin : {"cases": [{"id", "layer": {cell, scaled_positions, numbers, pbc}, "tol", "min_2d_thickness", "trace": bool, "as3d": bool}]}
stdout: last line {"mode": ..., "rows": [...]}

Nothing in /repo is patched.  Intermediate data are obtained by calling the anchored methods directly:
  * analyzer._analyzed_system                      (the symmetry-broken, vacuum-padded copy)
  * matid.geometry.get_thickness(input, i_pbc)     (what the vacuum rule consumed)
  * analyzer.get_symmetry_dataset().transformation_matrix
  * analyzer._find_wyckoff_ground_state(number, letters, spglib conventional system)  -> the ideal system
    the 2D branch post-processes (called on a *second* analyzer object so that the object whose public
    result is reported is never touched)
  * matid.geometry.get_center_of_mass(ideal system with pbc = True)   (periodic centre of mass: oracle input
    of the pipeline model)
Floats travel as JSON numbers (repr round-trips binary64).
"""
import json
import os
import sys

sys.path.insert(0, os.path.dirname(os.path.abspath(__file__)))
sys.path.insert(0, os.path.dirname(os.path.dirname(os.path.abspath(__file__))))
from _util import time_limit  # noqa: E402
from lib import extshim  # noqa: E402

mode = extshim.install()
req = json.load(sys.stdin)

import numpy as np  # noqa: E402
from ase import Atoms  # noqa: E402
import matid.geometry as G  # noqa: E402
from matid.symmetry.symmetryanalyzer import SymmetryAnalyzer  # noqa: E402
from matid.utils.exceptions import MatIDError  # noqa: E402


def lst(a):
    return np.asarray(a, dtype=float).tolist()


def atoms_of(lay, pbc=None):
    return Atoms(numbers=lay["numbers"], cell=np.array(lay["cell"], dtype=float),
                 scaled_positions=np.array(lay["scaled_positions"], dtype=float), pbc=lay["pbc"] if pbc is None else pbc)


def sets_of(a):
    sets = a.get_wyckoff_sets_conventional(return_parameters=False)
    return [{"letter": s.wyckoff_letter, "element": s.element, "multiplicity": int(len(s.indices))} for s in sets]


def run_one(c):
    lay = c["layer"]
    tol = c.get("tol", 1e-3)
    ms = c.get("min_2d_thickness", 1)
    at = atoms_of(lay)
    before = (at.get_positions().copy(), at.get_cell().array.copy(), at.get_atomic_numbers().copy(), at.get_pbc().copy())
    out = {"id": c["id"]}
    try:
        a = SymmetryAnalyzer(at, symmetry_tol=tol, min_2d_thickness=ms)
    except ValueError as e:
        out["outcome"] = "ValueError"
        out["message"] = str(e)[:200]
        return out
    pbc = np.array(lay["pbc"], dtype=bool)
    i_pbc = int(np.argwhere(pbc == False)[0][0])  # noqa: E712
    out["i_pbc"] = i_pbc
    # ---- vacuum rule ---------------------------------------------------------------------------------
    out["input_cell"] = lst(at.get_cell())
    out["input_positions"] = lst(at.get_positions())
    out["input_thickness"] = float(G.get_thickness(at, i_pbc))
    an = a._analyzed_system
    out["analyzed_cell"] = lst(an.get_cell())
    out["analyzed_positions_same"] = bool(np.array_equal(an.get_positions(), at.get_positions()))
    out["analyzed_numbers_same"] = bool(np.array_equal(an.get_atomic_numbers(), at.get_atomic_numbers()))
    out["analyzed_pbc"] = [bool(x) for x in an.get_pbc()]
    # ---- intermediate data on a second analyzer object -------------------------------------------------
    if c.get("trace", True):
        try:
            b = SymmetryAnalyzer(atoms_of(lay), symmetry_tol=tol, min_2d_thickness=ms)
            ds = b.get_symmetry_dataset()
            out["transformation_matrix"] = lst(ds.transformation_matrix)
            out["std_lattice"] = lst(ds.std_lattice)
            spg = b._get_spglib_conventional_system()
            letters = b._get_spglib_wyckoff_letters_conventional()
            ideal, ideal_w = b._find_wyckoff_ground_state(int(ds.number), letters, spg)
            ideal = ideal.copy()
            out["ideal_cell"] = lst(ideal.get_cell())
            out["ideal_positions"] = lst(ideal.get_positions())
            out["ideal_numbers"] = [int(z) for z in ideal.get_atomic_numbers()]
            ideal.set_pbc(True)
            com = G.get_center_of_mass(ideal)
            center = 0.5 * np.sum(ideal.get_cell(), axis=0)
            out["translation_full"] = lst(center - com)
        except Exception as e:
            out["trace_error"] = type(e).__name__ + ": " + str(e)[:200]
    # ---- public results ------------------------------------------------------------------------------
    try:
        conv = a.get_conventional_system()
    except MatIDError as e:
        if "Could not detect the non-periodic direction" in str(e):
            out["outcome"] = "MatIDError"
            out["message"] = str(e)[:200]
            return out
        raise
    out["outcome"] = "Conv"
    out["number"] = int(a.get_space_group_number())
    out["conv_cell"] = lst(conv.get_cell())
    out["conv_positions"] = lst(conv.get_positions())
    out["conv_scaled"] = lst(conv.get_scaled_positions(wrap=False))
    out["conv_numbers"] = [int(z) for z in conv.get_atomic_numbers()]
    out["conv_pbc"] = [bool(x) for x in conv.get_pbc()]
    out["material_id"] = a.get_material_id()
    out["wyckoff_sets"] = sets_of(a)
    out["conv_letters"] = [None if x is None else str(x) for x in a.get_wyckoff_letters_conventional()]
    after = (at.get_positions(), at.get_cell().array, at.get_atomic_numbers(), at.get_pbc())
    out["input_untouched"] = bool(all(np.array_equal(x, y) for x, y in zip(before, after)))
    # ---- the same cell analysed as a 3D crystal ----------------------------------------------------------
    if c.get("as3d", False):
        try:
            a3 = SymmetryAnalyzer(atoms_of(lay, pbc=True), symmetry_tol=tol)
            out["id_3d"] = a3.get_material_id()
            out["number_3d"] = int(a3.get_space_group_number())
        except Exception as e:  # the 3D analysis is only a comparison value
            out["id_3d_error"] = type(e).__name__ + ": " + str(e)[:200]
    return out


rows = []
for c in req["cases"]:
    try:
        with time_limit(c.get("time_limit", 120)):
            rows.append(run_one(c))
    except Exception as e:
        import traceback
        rows.append({"id": c["id"], "error": type(e).__name__ + ": " + str(e)[:300], "tb": traceback.format_exc()[-800:]})
print(json.dumps({"mode": mode, "rows": rows}, default=__import__("_util").jdefault))