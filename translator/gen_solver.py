"""Translator for C08: the parameter-solving statements of SymmetryAnalyzer._get_wyckoff_sets
->  Generated/SolverRule.v

Reads (ast only, never imports) matid/symmetry/symmetryanalyzer.py and matid/geometry/geometry.py and
emits the three facts of the current source that the Coq model of Symmetry/ParamSolve.v is
parametrised by:

  read_index_is_component : bool   -- inside
        for idx, var in variable_map.items():
            for icomp in range(3):
                if M[idx][icomp] == 1:
                    W[idx] = R[<i>] - C[<i>]
                    break
     whether <i> is the component `icomp` that was just found (true) or the variable index `idx` (false)
  self_test_tol : Q                -- the accuracy literal of the self test
        self._search_periodic_positions(np.dot(W, M) + C, R, cell, <tol>) is None
  wrap_precision : Q               -- default `precision` of matid.geometry.get_wrapped_positions

Fail-closed: the loop nest, the bindings R = positions[atom_index], W = np.zeros(3), M = Ms[0],
C = Cs[0] before it and the final get_wrapped_positions(W_final) call must have exactly the shape
the model was written for; anything else raises TranslationError.
"""
import ast
import os
import sys

sys.path.insert(0, os.path.dirname(os.path.abspath(__file__)))
from pyast import TranslationError, parse_file, literal, find_function  # noqa

ANALYZER = "matid/symmetry/symmetryanalyzer.py"
GEOMETRY = "matid/geometry/geometry.py"


def _name(n, ident):
    return isinstance(n, ast.Name) and n.id == ident


def _sub(n, base, index_name):
    """n is  base[index_name]  -> True"""
    return isinstance(n, ast.Subscript) and _name(n.value, base) and _name(n.slice, index_name)


def _dump(n):
    return ast.dump(n)[:200]


def read_rule(repo):
    path = os.path.join(repo, ANALYZER)
    tree, src = parse_file(path)
    lines = src.splitlines()
    fn = find_function(tree, "_get_wyckoff_sets", cls="SymmetryAnalyzer")
    # the loop `for idx, var in variable_map.items()`
    loops = [n for n in ast.walk(fn) if isinstance(n, ast.For) and isinstance(n.target, ast.Tuple)
             and len(n.target.elts) == 2 and _name(n.target.elts[0], "idx")
             and isinstance(n.iter, ast.Call) and isinstance(n.iter.func, ast.Attribute)
             and n.iter.func.attr == "items" and _name(n.iter.func.value, "variable_map")]
    if len(loops) != 1:
        raise TranslationError("expected exactly one `for idx, var in variable_map.items()` in _get_wyckoff_sets, found %d" % len(loops), fn, path)
    lp = loops[0]
    if lp.orelse or len(lp.body) != 1 or not isinstance(lp.body[0], ast.For):
        raise TranslationError("variable loop: body is not a single for-loop", lp, path)
    inner = lp.body[0]
    if inner.orelse or not _name(inner.target, "icomp") or not (
            isinstance(inner.iter, ast.Call) and _name(inner.iter.func, "range") and len(inner.iter.args) == 1
            and isinstance(inner.iter.args[0], ast.Constant) and inner.iter.args[0].value == 3 and not inner.iter.keywords):
        raise TranslationError("component loop is not `for icomp in range(3)`", inner, path)
    if len(inner.body) != 1 or not isinstance(inner.body[0], ast.If):
        raise TranslationError("component loop: body is not a single if", inner, path)
    cond = inner.body[0]
    t = cond.test
    ok_test = (isinstance(t, ast.Compare) and len(t.ops) == 1 and isinstance(t.ops[0], ast.Eq)
               and isinstance(t.left, ast.Subscript) and _sub(t.left.value, "M", "idx") and _name(t.left.slice, "icomp")
               and len(t.comparators) == 1 and isinstance(t.comparators[0], ast.Constant)
               and t.comparators[0].value == 1 and not isinstance(t.comparators[0].value, bool))
    if not ok_test or cond.orelse:
        raise TranslationError("condition is not `M[idx][icomp] == 1` without else: %s" % _dump(t), cond, path)
    if len(cond.body) != 2 or not isinstance(cond.body[1], ast.Break) or not isinstance(cond.body[0], ast.Assign):
        raise TranslationError("if-body is not `W[idx] = ...; break`", cond, path)
    asg = cond.body[0]
    if len(asg.targets) != 1 or not _sub(asg.targets[0], "W", "idx"):
        raise TranslationError("assignment target is not W[idx]", asg, path)
    v = asg.value
    if not (isinstance(v, ast.BinOp) and isinstance(v.op, ast.Sub) and isinstance(v.left, ast.Subscript)
            and isinstance(v.right, ast.Subscript) and _name(v.left.value, "R") and _name(v.right.value, "C")
            and isinstance(v.left.slice, ast.Name) and isinstance(v.right.slice, ast.Name)):
        raise TranslationError("assigned value is not R[i] - C[j]: %s" % _dump(v), asg, path)
    i, j = v.left.slice.id, v.right.slice.id
    if i != j or i not in ("idx", "icomp"):
        raise TranslationError("assigned value R[%s] - C[%s]: indices differ or are neither idx nor icomp" % (i, j), asg, path)
    rule = (i == "icomp")

    # the enclosing `for atom_index in indices` and the bindings before the variable loop
    outer = [n for n in ast.walk(fn) if isinstance(n, ast.For) and _name(n.target, "atom_index") and lp in n.body]
    if len(outer) != 1 or not _name(outer[0].iter, "indices") or outer[0].orelse:
        raise TranslationError("the variable loop is not directly inside `for atom_index in indices`", lp, path)
    body = outer[0].body
    k = body.index(lp)
    want = {"R": "Subscript(value=Name(id='positions', ctx=Load()), slice=Name(id='atom_index', ctx=Load()), ctx=Load())",
            "W": "Call(func=Attribute(value=Name(id='np', ctx=Load()), attr='zeros', ctx=Load()), args=[Constant(value=3)], keywords=[])",
            "M": "Subscript(value=Name(id='Ms', ctx=Load()), slice=Constant(value=0), ctx=Load())",
            "C": "Subscript(value=Name(id='Cs', ctx=Load()), slice=Constant(value=0), ctx=Load())"}
    seen = {}
    for st in body[:k]:
        if not (isinstance(st, ast.Assign) and len(st.targets) == 1 and isinstance(st.targets[0], ast.Name)):
            raise TranslationError("unexpected statement before the variable loop", st, path)
        seen[st.targets[0].id] = ast.dump(st.value)
    if seen != want:
        raise TranslationError("bindings before the variable loop differ from R = positions[atom_index]; W = np.zeros(3); M = Ms[0]; C = Cs[0]: %r" % seen, lp, path)

    # self test: the statement right after the variable loop
    st = body[k + 1] if k + 1 < len(body) else None
    tol = None
    if isinstance(st, ast.If) and len(st.body) == 1 and isinstance(st.body[0], ast.Continue) and not st.orelse:
        c = st.test
        if (isinstance(c, ast.Compare) and len(c.ops) == 1 and isinstance(c.ops[0], ast.Is)
                and isinstance(c.comparators[0], ast.Constant) and c.comparators[0].value is None
                and isinstance(c.left, ast.Call) and isinstance(c.left.func, ast.Attribute)
                and c.left.func.attr == "_search_periodic_positions" and len(c.left.args) == 4 and not c.left.keywords):
            a0, a1, a2, a3 = c.left.args
            if (ast.dump(a0) == ast.dump(ast.parse("np.dot(W, M) + C", mode="eval").body) and _name(a1, "R") and _name(a2, "cell")):
                tol = literal(a3, lines, filename=path)
    if tol is None:
        raise TranslationError("self test `if self._search_periodic_positions(np.dot(W, M) + C, R, cell, <tol>) is None: continue` not found after the variable loop", lp, path)

    # W_final = matid.geometry.get_wrapped_positions(W_final) must be there
    wraps = [n for n in ast.walk(fn) if isinstance(n, ast.Assign) and len(n.targets) == 1 and _name(n.targets[0], "W_final")
             and isinstance(n.value, ast.Call) and isinstance(n.value.func, ast.Attribute) and n.value.func.attr == "get_wrapped_positions"
             and len(n.value.args) == 1 and _name(n.value.args[0], "W_final") and not n.value.keywords]
    if len(wraps) != 1:
        raise TranslationError("`W_final = matid.geometry.get_wrapped_positions(W_final)` not found exactly once", fn, path)

    gpath = os.path.join(repo, GEOMETRY)
    gtree, gsrc = parse_file(gpath)
    gw = find_function(gtree, "get_wrapped_positions")
    a = gw.args
    if [x.arg for x in a.args] != ["scaled_pos", "precision"] or len(a.defaults) != 1 or a.vararg or a.kwarg or a.kwonlyargs:
        raise TranslationError("signature of get_wrapped_positions is not (scaled_pos, precision=<number>)", gw, gpath)
    prec = literal(a.defaults[0], gsrc.splitlines(), filename=gpath)
    return {"rule": rule, "self_test_tol": tol, "wrap_precision": prec, "line": asg.lineno,
            "statement": lines[asg.lineno - 1].strip()}


def q(fr):
    return "(%d # %d)%%Q" % (fr.numerator, fr.denominator)


def generate(repo="/repo"):
    r = read_rule(repo)
    text = "\n".join([
        "(* GENERATED by translator/gen_solver.py from %s:%d  `%s`  -- do not edit *)" % (ANALYZER, r["line"], r["statement"]),
        "From Coq Require Import QArith.",
        "Definition read_index_is_component : bool := %s." % ("true" if r["rule"] else "false"),
        "Definition self_test_tol : Q := %s." % q(r["self_test_tol"]),
        "Definition wrap_precision : Q := %s." % q(r["wrap_precision"]),
        ""])
    return text, r


if __name__ == "__main__":
    t, r = generate(sys.argv[1] if len(sys.argv) > 1 else "/repo")
    print(t)
    print(r)
