"""Translator for C19: matid.geometry.get_radii  ->  coq/Generated/RadiiGen.v

Reads (with ast only):
  * /repo/matid/geometry/geometry.py : the imports that bind covalent_radii / vdw_radii, the body of
    get_radii (dispatch on the preset string, the element expression of the 'vdw_covalent'
    comprehension), and the way the three consumers (get_dimensionality, get_distances,
    SBC.get_clusters) use their `radii` argument.
  * ase/data/__init__.py, ase/data/vdw_alvarez.py : the reference tables (the "documented tables").

Fail-closed: any shape other than the ones handled raises TranslationError.
"""
import ast
import os
import sys

sys.path.insert(0, os.path.dirname(os.path.abspath(__file__)))
from pyast import TranslationError, NAN, parse_file, literal, module_assign, find_function, strip_docstring  # noqa

ASE_DATA = "/venv/lib/python3.12/site-packages/ase/data"


def fl_lit(v):
    if v is NAN:
        return "None"
    return "(Some (%d # %d)%%Q)" % (v.numerator, v.denominator) if v >= 0 else "(Some ((%d) # %d)%%Q)" % (v.numerator, v.denominator)


def read_ase_tables():
    t1, s1 = parse_file(os.path.join(ASE_DATA, "__init__.py"))
    names = {}
    # `missing = 2.0` style scalar bindings that the table refers to
    for st in t1.body:
        if isinstance(st, ast.Assign) and len(st.targets) == 1 and isinstance(st.targets[0], ast.Name) \
                and isinstance(st.value, ast.Constant) and isinstance(st.value.value, (int, float)) \
                and not isinstance(st.value.value, bool):
            names[st.targets[0].id] = literal(st.value, s1.splitlines())
    cov = literal(module_assign(t1, "covalent_radii"), s1.splitlines(), names)
    t2, s2 = parse_file(os.path.join(ASE_DATA, "vdw_alvarez.py"))
    vdw = literal(module_assign(t2, "vdw_radii"), s2.splitlines())
    return cov, vdw


class ExprTr:
    """Python float/bool expression over the loop index -> Gallina (see coq/Geometry/Radii.v)."""

    def __init__(self, tables, idx, filename):
        self.tables = tables
        self.idx = idx
        self.fn = filename

    def fl(self, n):
        if isinstance(n, ast.Subscript) and isinstance(n.value, ast.Name) and n.value.id in self.tables \
                and isinstance(n.slice, ast.Name) and n.slice.id == self.idx:
            return "(get %s %s)" % (self.tables[n.value.id], self.idx)
        if isinstance(n, ast.Attribute) and n.attr == "nan" and isinstance(n.value, ast.Name) and n.value.id in ("np", "numpy", "math"):
            return "fnan"
        if isinstance(n, ast.Call) and isinstance(n.func, ast.Name) and n.func.id == "float" and len(n.args) == 1 \
                and isinstance(n.args[0], ast.Constant) and str(n.args[0].value).lower() == "nan":
            return "fnan"
        if isinstance(n, ast.Constant) and isinstance(n.value, (int, float)) and not isinstance(n.value, bool):
            from fractions import Fraction
            v = Fraction(str(n.value))
            return "(fconst (%d # %d))" % (v.numerator, v.denominator)
        if isinstance(n, ast.IfExp):
            return "(if %s then %s else %s)" % (self.bl(n.test), self.fl(n.body), self.fl(n.orelse))
        raise TranslationError("unsupported float expression %s" % ast.dump(n), n, self.fn)

    def bl(self, n):
        if isinstance(n, ast.Compare) and len(n.ops) == 1:
            a, b = self.fl(n.left), self.fl(n.comparators[0])
            op = {ast.NotEq: "fne", ast.Eq: "feq", ast.Lt: "flt", ast.LtE: "fle", ast.Gt: "fgt", ast.GtE: "fge"}.get(type(n.ops[0]))
            if op is None:
                raise TranslationError("unsupported comparison", n, self.fn)
            return "(%s %s %s)" % (op, a, b)
        if isinstance(n, ast.UnaryOp) and isinstance(n.op, ast.Not):
            return "(negb %s)" % self.bl(n.operand)
        if isinstance(n, ast.BoolOp):
            op = "andb" if isinstance(n.op, ast.And) else "orb"
            parts = [self.bl(v) for v in n.values]
            r = parts[0]
            for p in parts[1:]:
                r = "(%s %s %s)" % (op, r, p)
            return r
        if isinstance(n, ast.Call) and isinstance(n.func, ast.Attribute) and n.func.attr == "isnan" \
                and isinstance(n.func.value, ast.Name) and n.func.value.id in ("np", "numpy", "math") and len(n.args) == 1:
            return "(fisnan %s)" % self.fl(n.args[0])
        raise TranslationError("unsupported boolean expression %s" % ast.dump(n), n, self.fn)


def translate_get_radii(tree, filename):
    # imports binding the table names
    bound = {}
    for st in tree.body:
        if isinstance(st, ast.ImportFrom):
            for al in st.names:
                nm = al.asname or al.name
                if nm in ("covalent_radii", "vdw_radii"):
                    bound[nm] = (st.module, al.name)
    if bound.get("covalent_radii") != ("ase.data", "covalent_radii"):
        raise TranslationError("covalent_radii is not imported from ase.data: %r" % (bound.get("covalent_radii"),))
    if bound.get("vdw_radii") != ("ase.data.vdw_alvarez", "vdw_radii"):
        raise TranslationError("vdw_radii is not imported from ase.data.vdw_alvarez: %r" % (bound.get("vdw_radii"),))
    # later module-level rebinding of these names would invalidate the reading
    for st in ast.walk(tree):
        if isinstance(st, (ast.Assign, ast.AugAssign, ast.AnnAssign)):
            tg = st.targets if isinstance(st, ast.Assign) else [st.target]
            for t in tg:
                for nn in ast.walk(t):
                    if isinstance(nn, ast.Name) and nn.id in ("covalent_radii", "vdw_radii"):
                        raise TranslationError("table name %s is rebound" % nn.id, st, filename)
    tables = {"covalent_radii": "ref_covalent", "vdw_radii": "ref_vdw"}

    f = find_function(tree, "get_radii")
    args = [a.arg for a in f.args.args]
    if args != ["radii", "atomic_numbers"]:
        raise TranslationError("get_radii signature changed: %r" % args, f, filename)
    body = strip_docstring(f.body)
    if len(body) != 2 or not isinstance(body[0], ast.If) or not isinstance(body[1], ast.Return):
        raise TranslationError("get_radii body shape changed", f, filename)
    top, ret = body
    if not (isinstance(ret.value, ast.Name) and ret.value.id == "radii"):
        raise TranslationError("get_radii must return radii", ret, filename)
    t = top.test
    if not (isinstance(t, ast.Call) and isinstance(t.func, ast.Name) and t.func.id == "isinstance"
            and len(t.args) == 2 and isinstance(t.args[0], ast.Name) and t.args[0].id == "radii"
            and isinstance(t.args[1], ast.Name) and t.args[1].id == "str") or top.orelse:
        raise TranslationError("expected `if isinstance(radii, str):` without else", top, filename)
    inner = top.body
    if len(inner) != 2 or not isinstance(inner[0], ast.If):
        raise TranslationError("expected preset dispatch followed by indexing", top, filename)
    last = inner[1]
    ok_index = (isinstance(last, ast.Assign) and len(last.targets) == 1 and isinstance(last.targets[0], ast.Name)
                and last.targets[0].id == "radii" and isinstance(last.value, ast.Subscript)
                and isinstance(last.value.value, ast.Name) and last.value.value.id == "radii"
                and isinstance(last.value.slice, ast.Name) and last.value.slice.id == "atomic_numbers")
    if not ok_index:
        raise TranslationError("expected `radii = radii[atomic_numbers]`", last, filename)

    presets = {}
    node = inner[0]
    while True:
        c = node.test
        if not (isinstance(c, ast.Compare) and len(c.ops) == 1 and isinstance(c.ops[0], ast.Eq)
                and isinstance(c.left, ast.Name) and c.left.id == "radii"
                and isinstance(c.comparators[0], ast.Constant) and isinstance(c.comparators[0].value, str)):
            raise TranslationError("expected `radii == \"<preset>\"`", c, filename)
        key = c.comparators[0].value
        if len(node.body) != 1 or not isinstance(node.body[0], ast.Assign) or len(node.body[0].targets) != 1 \
                or not isinstance(node.body[0].targets[0], ast.Name) or node.body[0].targets[0].id != "radii":
            raise TranslationError("preset branch must be a single `radii = ...`", node, filename)
        val = node.body[0].value
        if key in presets:
            raise TranslationError("duplicate preset %s" % key, node, filename)
        presets[key] = table_expr(val, tables, filename)
        if not node.orelse:
            break
        if len(node.orelse) == 1 and isinstance(node.orelse[0], ast.If):
            node = node.orelse[0]
        else:
            raise TranslationError("unexpected else branch in preset dispatch", node, filename)
    return presets


def table_expr(val, tables, filename):
    """Gallina term of type `list fl` for the right-hand side of a preset branch."""
    if isinstance(val, ast.Name) and val.id in tables:
        return tables[val.id]
    # np.array([ELT for i in range(len(T))])
    if isinstance(val, ast.Call) and isinstance(val.func, ast.Attribute) and val.func.attr == "array" and len(val.args) == 1 \
            and not val.keywords and isinstance(val.args[0], ast.ListComp):
        lc = val.args[0]
        if len(lc.generators) != 1 or lc.generators[0].ifs or lc.generators[0].is_async:
            raise TranslationError("unsupported comprehension", lc, filename)
        g = lc.generators[0]
        if not isinstance(g.target, ast.Name):
            raise TranslationError("unsupported comprehension target", lc, filename)
        idx = g.target.id
        it = g.iter
        if not (isinstance(it, ast.Call) and isinstance(it.func, ast.Name) and it.func.id == "range" and len(it.args) == 1
                and isinstance(it.args[0], ast.Call) and isinstance(it.args[0].func, ast.Name) and it.args[0].func.id == "len"
                and len(it.args[0].args) == 1 and isinstance(it.args[0].args[0], ast.Name) and it.args[0].args[0].id in tables):
            raise TranslationError("comprehension must range over range(len(<table>))", it, filename)
        lenof = tables[it.args[0].args[0].id]
        elt = ExprTr(tables, idx, filename).fl(lc.elt)
        return "(map (fun %s : nat => %s) (seq 0 (List.length %s)))" % (idx, elt, lenof)
    raise TranslationError("unsupported preset table expression %s" % ast.dump(val)[:200], val, filename)


def check_consumer(fn, filename, resolver_names=("get_radii",)):
    """The consumer's parameter `radii` must reach the computation only through get_radii(radii, <nums>):
    the first statement that mentions `radii` is `<x> = [matid.geometry.]get_radii(radii, <name>)`, and if x is
    not `radii` itself the parameter is never read again.  Returns the name bound to the resolved array."""
    params = [a.arg for a in fn.args.args]
    if "radii" not in params:
        raise TranslationError("%s has no radii parameter" % fn.name, fn, filename)
    bound = None
    for st in strip_docstring(fn.body):
        uses = [n for n in ast.walk(st) if isinstance(n, ast.Name) and n.id == "radii" and isinstance(n.ctx, ast.Load)]
        if bound is None:
            if not uses:
                continue
            ok = (isinstance(st, ast.Assign) and len(st.targets) == 1 and isinstance(st.targets[0], ast.Name)
                  and isinstance(st.value, ast.Call) and len(st.value.args) == 2 and not st.value.keywords
                  and isinstance(st.value.args[0], ast.Name) and st.value.args[0].id == "radii"
                  and isinstance(st.value.args[1], ast.Name) and len(uses) == 1)
            if ok:
                fnode = st.value.func
                nm = fnode.id if isinstance(fnode, ast.Name) else (fnode.attr if isinstance(fnode, ast.Attribute) else None)
                ok = nm in resolver_names
            if not ok:
                raise TranslationError("%s: first use of `radii` is not `x = get_radii(radii, nums)`" % fn.name, st, filename)
            bound = st.targets[0].id
        else:
            if bound != "radii" and uses:
                raise TranslationError("%s: raw `radii` parameter read after resolution" % fn.name, st, filename)
    if bound is None:
        raise TranslationError("%s never resolves radii" % fn.name, fn, filename)
    return bound


def generate(repo="/repo"):
    gpath = os.path.join(repo, "matid/geometry/geometry.py")
    tree, src = parse_file(gpath)
    cov, vdw = read_ase_tables()
    presets = translate_get_radii(tree, gpath)
    for k in ("covalent", "vdw", "vdw_covalent"):
        if k not in presets:
            raise TranslationError("preset %s missing from get_radii" % k)
    consumers = {}
    consumers["get_dimensionality"] = check_consumer(find_function(tree, "get_dimensionality"), gpath)
    consumers["get_distances"] = check_consumer(find_function(tree, "get_distances"), gpath)
    spath = os.path.join(repo, "matid/clustering/sbc.py")
    stree, _ = parse_file(spath)
    consumers["SBC.get_clusters"] = check_consumer(find_function(stree, "get_clusters", cls="SBC"), spath)

    out = []
    out.append("(* GENERATED by translator/gen_radii.py from %s and ase.data -- do not edit *)" % gpath)
    out.append("From Coq Require Import QArith List.")
    out.append("Import ListNotations.")
    out.append("From MV Require Import Geometry.Radii.")
    out.append("Definition ref_covalent : list fl := [%s]." % "; ".join(fl_lit(v) for v in cov))
    out.append("Definition ref_vdw : list fl := [%s]." % "; ".join(fl_lit(v) for v in vdw))
    out.append("(* matid.geometry.get_radii, preset dispatch as written in the source *)")
    out.append("Definition preset_covalent : list fl := %s." % presets["covalent"])
    out.append("Definition preset_vdw : list fl := %s." % presets["vdw"])
    out.append("Definition preset_vdw_covalent : list fl := %s." % presets["vdw_covalent"])
    out.append("Definition preset_table (p : preset) : list fl :=")
    out.append("  match p with Covalent => preset_covalent | Vdw => preset_vdw | VdwCovalent => preset_vdw_covalent end.")
    out.append("(* consumers verified by the translator to use `radii` only through get_radii: %s *)" % ", ".join("%s->%s" % kv for kv in sorted(consumers.items())))
    return "\n".join(out) + "\n", {"n_cov": len(cov), "n_vdw": len(vdw), "consumers": consumers,
                                  "extra_presets": sorted(set(presets) - {"covalent", "vdw", "vdw_covalent"})}


if __name__ == "__main__":
    txt, info = generate(sys.argv[1] if len(sys.argv) > 1 else "/repo")
    sys.stdout.write(txt)
    sys.stderr.write(repr(info) + "\n")
