"""Per-group reflection instances (vm_compute over the regenerated tables) and their collection
into statements over all 230 tables.  Purely mechanical text; the checkers and their meaning are
in coq/Reflect/*.v."""

HEAD = """From Coq Require Import ZArith List String Bool.
Import ListNotations.
From MV Require Import Symmetry.Table Symmetry.Affine Reflect.GroupChecks Reflect.NormChecks Reflect.GroundChecks.
"""

G_CLAUSES = [("letters_ok", "chk_letters SG.table"),
             ("exprs_ok", "chk_exprs SG.table"),
             ("group_ok", "chk_group SG.table (ref_of (sg_num SG.table))"),
             ("orbits_ok", "chk_orbits SG.table"),
             ("info_ok", "chk_info SG.table"),
             ("isometries_ok", "chk_group_isometries SG.table")]
N_CLAUSES = [("norms_ok", "chk_norms SG.table CERTS.certs"),
             ("proper_perms_ok", "chk_proper_perms_closed SG.table"),
             ("perm_inverses_ok", "chk_perm_inverses SG.table"),
             ("letter_codes_ok", "chk_letter_codes SG.table")]


def chkg_text(sg):
    t = HEAD + "From MVD Require Import Generated.SG%03d Generated.RefSpglib.\n" % sg
    for name, stmt in G_CLAUSES:
        t += "Lemma %s : %s = true.\nProof. vm_compute. reflexivity. Qed.\n" % (name, stmt.replace("SG.", "SG%03d." % sg))
    return t


def chkn_text(sg):
    t = HEAD + "From MVD Require Import Generated.SG%03d Generated.Certs%03d.\n" % (sg, sg)
    for name, stmt in N_CLAUSES:
        t += "Lemma %s : %s = true.\nProof. vm_compute. reflexivity. Qed.\n" % (
            name, stmt.replace("SG.", "SG%03d." % sg).replace("CERTS.", "Certs%03d." % sg))
    return t


def all_text():
    t = HEAD + "From MVD Require Import Generated.SGAll Generated.RefSpglib.\n"
    for sg in range(1, 231):
        t += "From MVD Require Generated.ChkG%03d Generated.ChkN%03d Generated.Certs%03d.\n" % (sg, sg, sg)
    t += "Definition certs_all : list (list (list lcert)) := [%s].\n" % "; ".join("Certs%03d.certs" % sg for sg in range(1, 231))
    t += "Definition certs_of (sg : Z) : list (list lcert) := nth (Z.to_nat (sg - 1)) certs_all [].\n"

    def forall(name, pred, lemma_mod, lemma):
        s = "Lemma %s : Forall (fun t => %s = true) tables.\nProof.\n  exact (" % (name, pred)
        for sg in range(1, 231):
            s += "Forall_cons _ %s%03d.%s (" % (lemma_mod, sg, lemma)
        s += "Forall_nil _" + ")" * 230 + ").\nQed.\n"
        return s
    t += forall("all_letters_ok", "chk_letters t", "ChkG", "letters_ok")
    t += forall("all_exprs_ok", "chk_exprs t", "ChkG", "exprs_ok")
    t += forall("all_group_ok", "chk_group t (ref_of (sg_num t))", "ChkG", "group_ok")
    t += forall("all_orbits_ok", "chk_orbits t", "ChkG", "orbits_ok")
    t += forall("all_info_ok", "chk_info t", "ChkG", "info_ok")
    t += forall("all_norms_ok", "chk_norms t (certs_of (sg_num t))", "ChkN", "norms_ok")
    t += forall("all_proper_perms_ok", "chk_proper_perms_closed t", "ChkN", "proper_perms_ok")
    t += forall("all_isometries_ok", "chk_group_isometries t", "ChkG", "isometries_ok")
    t += forall("all_perm_inverses_ok", "chk_perm_inverses t", "ChkN", "perm_inverses_ok")
    t += forall("all_letter_codes_ok", "chk_letter_codes t", "ChkN", "letter_codes_ok")
    t += "Lemma tables_numbered : map sg_num tables = map Z.of_nat (seq 1 230).\nProof. vm_compute. reflexivity. Qed.\n"
    return t


def generate():
    files = []
    for sg in range(1, 231):
        files.append(("Generated/ChkG%03d.v" % sg, chkg_text(sg)))
        files.append(("Generated/ChkN%03d.v" % sg, chkn_text(sg)))
    return files, ("Generated/ChkAll.v", all_text())
