"""Fail-closed helpers for reading Python source with `ast` (never import / exec the code).

Numbers are returned as exact `fractions.Fraction` built from the *decimal text* of the
literal (0.33333333 -> 33333333/100000000), never through binary floating point.
"""
import ast
import re
from fractions import Fraction


class TranslationError(Exception):
    def __init__(self, msg, node=None, filename=None):
        loc = ""
        if node is not None and hasattr(node, "lineno"):
            loc = " at %s:%d:%d" % (filename or "?", node.lineno, getattr(node, "col_offset", 0))
        super().__init__(msg + loc)


class NaN:
    """marker for a float NaN literal (np.nan / float('nan'))"""
    def __repr__(self):
        return "NaN"


NAN = NaN()


def parse_file(path):
    with open(path, encoding="utf-8") as f:
        src = f.read()
    return ast.parse(src, filename=path), src


_num_re = re.compile(r"^[0-9]*\.?[0-9]*(?:[eE][+-]?[0-9]+)?$")


def num_from_text(txt, node=None):
    t = txt.strip().replace("_", "")
    if not _num_re.match(t) or t in ("", "."):
        raise TranslationError("unsupported numeric literal %r" % txt, node)
    return Fraction(t)


def literal(node, src_lines, names=None, filename=None):
    """Evaluate a restricted literal expression.
    Accepts: numbers, strings, True/False/None, unary minus, lists/tuples/dicts/sets,
    `array(...)`/`np.array(...)`/`float64(...)` wrappers (transparent), names bound in `names`,
    np.nan.  Everything else raises TranslationError."""
    names = names or {}

    def ev(n):
        if isinstance(n, ast.Constant):
            v = n.value
            if isinstance(v, bool) or v is None or isinstance(v, str):
                return v
            if isinstance(v, int):
                return Fraction(v)
            if isinstance(v, float):
                seg = ast.get_source_segment("\n".join(src_lines), n) if False else None
                # exact decimal text of the literal
                line = src_lines[n.lineno - 1]
                if n.end_lineno == n.lineno:
                    seg = line[n.col_offset:n.end_col_offset]
                if seg is None:
                    raise TranslationError("multi-line float literal", n, filename)
                return num_from_text(seg, n)
            raise TranslationError("unsupported constant %r" % (v,), n, filename)
        if isinstance(n, ast.UnaryOp) and isinstance(n.op, ast.USub):
            v = ev(n.operand)
            if not isinstance(v, Fraction):
                raise TranslationError("unary minus on non-number", n, filename)
            return -v
        if isinstance(n, ast.UnaryOp) and isinstance(n.op, ast.UAdd):
            return ev(n.operand)
        if isinstance(n, (ast.List, ast.Tuple)):
            return [ev(e) for e in n.elts]
        if isinstance(n, ast.Set):
            return set(ev(e) for e in n.elts)
        if isinstance(n, ast.Dict):
            d = {}
            for k, v in zip(n.keys, n.values):
                if k is None:
                    raise TranslationError("dict unpacking", n, filename)
                kk = ev(k)
                if isinstance(kk, Fraction) and kk.denominator == 1:
                    kk = int(kk)
                if kk in d:
                    raise TranslationError("duplicate dict key %r" % (kk,), k, filename)
                d[kk] = ev(v)
            return d
        if isinstance(n, ast.Call):
            fn = n.func
            fname = fn.id if isinstance(fn, ast.Name) else (fn.attr if isinstance(fn, ast.Attribute) else None)
            if fname == "set" and isinstance(fn, ast.Name) and not n.args and not n.keywords:
                return set()
            if fname in ("array", "float64", "asarray") and len(n.args) >= 1:
                for kw in n.keywords:
                    if kw.arg != "dtype":
                        raise TranslationError("unsupported keyword %s" % kw.arg, n, filename)
                return ev(n.args[0])
            raise TranslationError("unsupported call %s" % ast.dump(fn), n, filename)
        if isinstance(n, ast.Name):
            if n.id in names:
                return names[n.id]
            if n.id in ("nan", "NaN"):
                return NAN
            raise TranslationError("unbound name %s" % n.id, n, filename)
        if isinstance(n, ast.Attribute):
            if n.attr in ("nan", "NaN") and isinstance(n.value, ast.Name) and n.value.id in ("np", "numpy", "math"):
                return NAN
            raise TranslationError("unsupported attribute %s" % ast.dump(n), n, filename)
        raise TranslationError("unsupported node %s" % type(n).__name__, n, filename)

    return ev(node)


def module_assign(tree, name):
    """Return the value node of the unique module-level assignment `name = ...`."""
    found = [s for s in tree.body if isinstance(s, ast.Assign) and len(s.targets) == 1
             and isinstance(s.targets[0], ast.Name) and s.targets[0].id == name]
    if len(found) != 1:
        raise TranslationError("expected exactly one module-level assignment of %s, found %d" % (name, len(found)))
    return found[0].value


def find_function(tree, name, cls=None):
    body = tree.body
    if cls is not None:
        cl = [s for s in tree.body if isinstance(s, ast.ClassDef) and s.name == cls]
        if len(cl) != 1:
            raise TranslationError("class %s not found" % cls)
        body = cl[0].body
    fs = [s for s in body if isinstance(s, ast.FunctionDef) and s.name == name]
    if len(fs) != 1:
        raise TranslationError("expected exactly one def %s, found %d" % (name, len(fs)))
    return fs[0]


def strip_docstring(body):
    if body and isinstance(body[0], ast.Expr) and isinstance(body[0].value, ast.Constant) and isinstance(body[0].value.value, str):
        return body[1:]
    return body
