"""Translator for C12: the five conventional->primitive transformation matrices of
SymmetryAnalyzer._get_primitive_system  ->  Generated/Centring.v, and the Hermann-Mauguin short
symbols of the standard settings (reference data from spglib's database)  ->  Generated/HMSymbols.v.

Read with `ast` only, fail-closed:
  * `primitive_transformations = {"A": np.array([[...]]), ...}` must be a dict literal with string keys
    whose values are `np.array(<3x3 list literal>)`; an entry is an integer constant, a unary minus of
    one, or `p / q` (BinOp Div of integer constants, optionally under a unary minus) -> exact rational.
  * the statements that fix how the matrix is USED must be present literally and be the only
    assignments of their targets:
        centring = space_group_international_short[0]
        if centring == 'P': return (conv_system, conv_wyckoff, conv_equivalent)
        transform = primitive_transformations[centring]
        conv_cell = conv_system.get_cell()
        prim_cell = np.dot(transform.T, conv_cell)            <- rows of prim_cell = COLUMNS of transform
        conv_to_prim_map = self._symmetry_dataset.std_mapping_to_primitive
        _, inside_mask = np.unique(conv_to_prim_map, return_index=True)
        prim_num = conv_num[inside_mask]; prim_wyckoff = conv_wyckoff[inside_mask]; prim_equivalent = conv_equivalent[inside_mask]
Anything else raises TranslationError.
"""
import ast
import os
import sys
from fractions import Fraction

sys.path.insert(0, os.path.dirname(os.path.abspath(__file__)))
from pyast import TranslationError, parse_file, find_function, strip_docstring  # noqa

SRC = "matid/symmetry/symmetryanalyzer.py"

REQUIRED = [
    "centring = space_group_international_short[0]",
    "if centring == 'P':\n    return (conv_system, conv_wyckoff, conv_equivalent)",
    "transform = primitive_transformations[centring]",
    "conv_cell = conv_system.get_cell()",
    "prim_cell = np.dot(transform.T, conv_cell)",
    "conv_num = conv_system.get_atomic_numbers()",
    "conv_to_prim_map = self._symmetry_dataset.std_mapping_to_primitive",
    "_, inside_mask = np.unique(conv_to_prim_map, return_index=True)",
    "prim_num = conv_num[inside_mask]",
    "prim_wyckoff = conv_wyckoff[inside_mask]",
    "prim_equivalent = conv_equivalent[inside_mask]",
    "return (prim_sys, prim_wyckoff, prim_equivalent)",
]
SINGLE_TARGETS = ["centring", "transform", "conv_cell", "prim_cell", "primitive_transformations", "conv_to_prim_map",
                  "inside_mask", "prim_num", "prim_wyckoff", "prim_equivalent", "conv_num"]


def _int_const(n):
    return isinstance(n, ast.Constant) and isinstance(n.value, int) and not isinstance(n.value, bool)


def entry(n, fn):
    """integer | -integer | p / q | -(p / q) | -p / q  ->  Fraction"""
    if _int_const(n):
        return Fraction(n.value)
    if isinstance(n, ast.UnaryOp) and isinstance(n.op, ast.USub):
        return -entry(n.operand, fn)
    if isinstance(n, ast.BinOp) and isinstance(n.op, ast.Div):
        num, den = entry(n.left, fn), n.right
        if not _int_const(den) or den.value == 0:
            raise TranslationError("denominator must be a non-zero integer constant", n, fn)
        return num / den.value
    raise TranslationError("unsupported matrix entry %s" % ast.dump(n), n, fn)


def read_matrices(repo="/repo"):
    path = os.path.join(repo, SRC)
    tree, _ = parse_file(path)
    f = find_function(tree, "_get_primitive_system", "SymmetryAnalyzer")
    args = [a.arg for a in f.args.args]
    if args != ["self", "conv_system", "conv_wyckoff", "conv_equivalent", "space_group_international_short"]:
        raise TranslationError("unexpected signature of _get_primitive_system: %r" % (args,), f, path)
    body = strip_docstring(f.body)
    texts = [ast.unparse(s) for s in body]
    for r in REQUIRED:
        if texts.count(r) != 1:
            raise TranslationError("_get_primitive_system: expected exactly one statement %r (found %d)" % (r, texts.count(r)), f, path)
    order = [texts.index(r) for r in REQUIRED]
    if order != sorted(order):
        raise TranslationError("_get_primitive_system: the modelled statements appear in another order", f, path)
    # every modelled name is assigned exactly once, at top level of the function
    assigned = {}
    for node in ast.walk(f):
        tg = []
        if isinstance(node, ast.Assign):
            tg = node.targets
        elif isinstance(node, (ast.AugAssign, ast.AnnAssign)):
            tg = [node.target]
        elif isinstance(node, (ast.For, ast.comprehension)):
            tg = [node.target]
        for t in tg:
            for nm in ast.walk(t):
                if isinstance(nm, ast.Name):
                    assigned[nm.id] = assigned.get(nm.id, 0) + 1
    for nm in SINGLE_TARGETS:
        if assigned.get(nm, 0) != 1:
            raise TranslationError("_get_primitive_system: %s is assigned %d times (model assumes once)" % (nm, assigned.get(nm, 0)), f, path)
    ds = [s for s in body if isinstance(s, ast.Assign) and len(s.targets) == 1 and isinstance(s.targets[0], ast.Name)
          and s.targets[0].id == "primitive_transformations"]
    if len(ds) != 1 or not isinstance(ds[0].value, ast.Dict):
        raise TranslationError("primitive_transformations is not a dict literal", f, path)
    mats = {}
    for k, v in zip(ds[0].value.keys, ds[0].value.values):
        if not (isinstance(k, ast.Constant) and isinstance(k.value, str)):
            raise TranslationError("non-string key in primitive_transformations", ds[0], path)
        if k.value in mats:
            raise TranslationError("duplicate key %r" % k.value, k, path)
        if not (isinstance(v, ast.Call) and isinstance(v.func, ast.Attribute) and v.func.attr == "array"
                and isinstance(v.func.value, ast.Name) and v.func.value.id == "np" and len(v.args) == 1 and not v.keywords):
            raise TranslationError("value of %r is not np.array(<literal>)" % k.value, v, path)
        lit = v.args[0]
        if not (isinstance(lit, ast.List) and len(lit.elts) == 3 and all(isinstance(r, ast.List) and len(r.elts) == 3 for r in lit.elts)):
            raise TranslationError("matrix of %r is not a 3x3 list literal" % k.value, v, path)
        mats[k.value] = [[entry(e, path) for e in r.elts] for r in lit.elts]
    return mats


def hm_symbols():
    """international short symbol of the first Hall number of every space group (spglib database)"""
    import spglib
    first = {}
    for hall in range(1, 531):
        t = spglib.get_spacegroup_type(hall)
        num = t["number"] if isinstance(t, dict) else t.number
        sym = t["international_short"] if isinstance(t, dict) else t.international_short
        if num not in first:
            first[num] = str(sym)
    return [first[sg] for sg in range(1, 231)]


def q(fr):
    return "(%d#%d)" % (fr.numerator, fr.denominator) if fr.numerator >= 0 else "((%d)#%d)" % (fr.numerator, fr.denominator)


def centring_text(mats):
    rows = []
    for k in mats:
        if '"' in k:
            raise TranslationError("quote in key")
        rows.append('  ("%s", [%s])' % (k, "; ".join("[" + "; ".join(q(x) for x in r) + "]" for r in mats[k])))
    return ("(* GENERATED by translator/gen_centring.py from SymmetryAnalyzer._get_primitive_system -- do not edit *)\n"
            "From Coq Require Import QArith List String.\nImport ListNotations.\nOpen Scope string_scope.\n"
            "(* primitive_transformations[letter]; the code forms prim_cell = np.dot(transform.T, conv_cell) *)\n"
            "Definition centring_mats : list (string * list (list Q)) := [\n" + ";\n".join(rows) + "].\n")


def hm_text(syms):
    for s in syms:
        if '"' in s or "\\" in s:
            raise TranslationError("unexpected character in HM symbol %r" % s)
    return ("(* GENERATED by translator/gen_centring.py: international short symbols of the first Hall number of each\n"
            "   space group, from the installed spglib database (reference data) *)\n"
            "From Coq Require Import List String.\nImport ListNotations.\nOpen Scope string_scope.\n"
            "Definition hm_short : list string := [" + "; ".join('"%s"' % s for s in syms) + "].\n")


def generate(repo="/repo"):
    mats = read_matrices(repo)
    syms = hm_symbols()
    meta = {"letters": sorted(mats), "matrices": {k: [[str(x) for x in r] for r in m] for k, m in mats.items()},
            "hm_centrings": {c: sum(1 for s in syms if s[0] == c) for c in sorted({s[0] for s in syms})}}
    return [("Generated/Centring.v", centring_text(mats)), ("Generated/HMSymbols.v", hm_text(syms))], meta, (mats, syms)


if __name__ == "__main__":
    files, meta, _ = generate(sys.argv[1] if len(sys.argv) > 1 else "/repo")
    print(meta)
    print(files[0][1])
