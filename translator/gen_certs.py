"""UNTRUSTED certificate generator for the letter-permutation clause of the normalizer check.
For every normalizer n and every Wyckoff letter l of its group it proposes (j, z, A, B, s) such that,
with (M1', c1') = n applied to the first representative of l and (M2, c2) = entry j of
expressions x centrings of the image letter perm(l):

    M1' = A M2,   M2 = B M1',   c1' - c2 - 24 z = 24 (s M2)        (constants in units of 1/24)

Coq re-checks every equation (Reflect/NormChecks.cert_ok); a wrong or missing certificate can only
make the check fail, never pass.  Emits Generated/Certs<n>.v.
"""
import itertools
from fractions import Fraction as Fr


def snap24(x):
    k = (x * 24 + Fr(1, 2)).__floor__()
    if abs(x - Fr(k, 24)) > Fr(1, 10**7):
        return None
    return k


def to_aff(M, C):
    m = []
    for row in M:
        r = []
        for v in row:
            if v.denominator != 1:
                return None
            r.append(int(v))
        m.append(tuple(r))
    c = []
    for v in C:
        k = snap24(v)
        if k is None:
            return None
        c.append(k % 24)
    return (tuple(m), tuple(c))


def mvec(R, x):
    return tuple(sum(R[i][k] * x[k] for k in range(3)) for i in range(3))


def act(n, e):
    R, t = n
    M, c = e
    M2 = tuple(mvec(R, M[v]) for v in range(3))
    c2 = tuple((sum(R[i][k] * c[k] for k in range(3)) + t[i]) % 24 for i in range(3))
    return (M2, c2)


def solve_left(T, B):
    """X (rows) with X B = T over Q, or None.  B, T: 3x3 (rows)."""
    X = []
    for trow in T:
        x = solve_vec(trow, B)
        if x is None:
            return None
        X.append(x)
    return X


def solve_vec(t, B):
    """x (len 3) with x B = t, i.e. sum_i x_i B[i] = t; free variables set to 0."""
    # augmented system in unknowns x_i: columns = equations (3 components)
    A = [[Fr(B[i][comp]) for i in range(3)] + [Fr(t[comp])] for comp in range(3)]
    piv = []
    r = 0
    for col in range(3):
        p = None
        for i in range(r, 3):
            if A[i][col] != 0:
                p = i
                break
        if p is None:
            continue
        A[r], A[p] = A[p], A[r]
        f = A[r][col]
        A[r] = [a / f for a in A[r]]
        for i in range(3):
            if i != r and A[i][col] != 0:
                g = A[i][col]
                A[i] = [a - g * b for a, b in zip(A[i], A[r])]
        piv.append(col)
        r += 1
    for i in range(r, 3):
        if A[i][3] != 0:
            return None
    x = [Fr(0)] * 3
    for i, col in enumerate(piv):
        x[col] = A[i][3]
    return x


def norm_op(T):
    R = []
    for i in range(3):
        row = []
        for j in range(3):
            v = T[i][j]
            if v.denominator != 1:
                return None
            row.append(int(v))
        R.append(tuple(row))
    t = []
    for i in range(3):
        k = snap24(T[i][3])
        if k is None:
            return None
        t.append(k % 24)
    return (tuple(R), tuple(t))


DUMMY = (0, (0, 0, 0), [[Fr(0)] * 3] * 3, [[Fr(0)] * 3] * 3, [Fr(0)] * 3)
ZBOX = sorted(itertools.product(range(-3, 4), repeat=3), key=lambda z: sum(abs(a) for a in z))


def letter_cert(n, e1, targets):
    M1, c1 = act(n, e1)
    cache = {}
    for j, (M2, c2) in enumerate(targets):
        key = M2
        if key not in cache:
            A = solve_left(M1, M2)
            B = solve_left(M2, M1) if A is not None else None
            cache[key] = (A, B)
        A, B = cache[key]
        if A is None or B is None:
            continue
        for z in ZBOX:
            d = tuple(Fr(c1[i] - c2[i] - 24 * z[i], 24) for i in range(3))
            s = solve_vec(d, M2)
            if s is not None:
                return (j, z, A, B, s)
    return None


def certificates(wyck, norms):
    """wyck, norms: parsed entries of one group.  Returns (list per normalizer of list per letter, n_missing)."""
    letters = [k for k in wyck if k != "translations"]
    tr = [(0, 0, 0)]
    ok = True
    for row in wyck["translations"]:
        a = to_aff([[Fr(0)] * 3] * 3, row)
        if a is None:
            ok = False
            break
        tr.append(a[1])
    affs = {}
    for l in letters:
        es = [to_aff(M, C) for M, C in zip(wyck[l]["matrices"], wyck[l]["constants"])]
        if any(e is None for e in es):
            ok = False
        affs[l] = es
    full = {}
    if ok:
        for l in letters:
            full[l] = [(e[0], tuple((e[1][i] + t[i]) % 24 for i in range(3))) for t in tr for e in affs[l]]
    out = []
    missing = 0
    for n in norms:
        op = norm_op(n["transformation"]) if ok else None
        row = []
        for l in letters:
            c = None
            l2 = n["permutations"].get(l)
            if op is not None and l2 in full:
                c = letter_cert(op, affs[l][0], full[l2])
            if c is None:
                missing += 1
                c = DUMMY
            row.append(c)
        out.append(row)
    return out, missing


def q(fr):
    fr = Fr(fr)
    return "((%d)#%d)" % (fr.numerator, fr.denominator) if fr.numerator < 0 else "(%d#%d)" % (fr.numerator, fr.denominator)


def z(n):
    return "(%d)" % n if n < 0 else "%d" % n


def cert_text(sg, certs):
    lines = ["(* GENERATED by translator/gen_certs.py (untrusted; every certificate is re-checked in Coq) *)",
             "From Coq Require Import ZArith QArith List.", "Import ListNotations.",
             "From MV Require Import Symmetry.Table Reflect.NormChecks.",
             "Definition certs : list (list lcert) := ["]
    rows = []
    for row in certs:
        items = []
        for (j, zz, A, B, s) in row:
            items.append("mkLC %d%%nat (%s)%%Z [%s] [%s] [%s]" % (
                j, ",".join(z(v) for v in zz),
                ";".join("[" + ";".join(q(v) for v in r) + "]" for r in A),
                ";".join("[" + ";".join(q(v) for v in r) + "]" for r in B),
                ";".join(q(v) for v in s)))
        rows.append("  [" + ";\n   ".join(items) + "]")
    lines.append(";\n".join(rows))
    lines.append("].")
    return "\n".join(lines) + "\n"


def generate(tables):
    info, wyck, norms = tables
    files = []
    missing = {}
    for sg in range(1, 231):
        c, m = certificates(wyck[sg], norms.get(sg, []))
        if m:
            missing[sg] = m
        files.append(("Generated/Certs%03d.v" % sg, cert_text(sg, c)))
    return files, missing
